import PortusModel.Props.C06
import PortusModel.Props.C01Decode
/-!
# C06, second half — libccp *acts* on portus' update-fields and change-program messages as built

`Props/C06.lean` proves that libccp's reader (`Libccp.readMsg`) recovers exactly the records a message was built
from. This file proves, over the libccp model of `Vm/Datapath.lean` (`readMsg` = `ccp_read_msg`, `stageUpdates` =
`stage_multiple_updates`, `invoke` = `ccp_invoke`), that the datapath then *behaves accordingly*:

* bridge: `readMsg_of_libccp_uf`, `readMsg_of_libccp_cp` — whenever the reader returns an update-fields /
  change-program message, `ccp_read_msg` stages exactly the reader's records (zero padding behind the buffer is
  invisible: `readUpds_pad`), so the reader theorems of `Props/C06.lean` are reused for the byte level;
* specification: `applyUpd`, `applyUpds` (pairs written over `Pending` in message order), `stageUpdates_spec`
  (`stage_multiple_updates` on portus' records, completely: prefix up to the first refused register, 0 / -53),
  `stageUpdates_applyUpds` (accepted lists), `applyUpds_control_getD`, `applyUpds_cwnd`, `applyUpds_rate`
  (later entries win);
* (a) `updatefield_staged` (and the complete `updatefield_acts`), at most 127 pairs;
* (b) `changeprog_staged`, `changeprog_unknown_uid` (and the complete `changeprog_acts`), at most 222 pairs:
  the pending updates are rebuilt from `Pending.none`;
* (c) `pending_applied` (no staged switch) and `pending_applied_switch` (after a change-program): `ccp_invoke`
  is `stateMachine` from `applyPending (…)` with the initial observation `preObs pending`;
* (d) `update_takes_effect`, `update_control_takes_effect`, `changeprog_takes_effect`.

Values: libccp does not narrow an update's value. `new_value` is a `u64` and goes unchanged into the pending
slot and from there into the 64-bit control / `Cwnd` / `Rate` register (`UInt64.ofNat v`, the identity for the
`v < 2^64` of `builtUF`/`builtCP`). (The `u32` parameter of the `set_cwnd`/`set_rate_abs` callbacks is outside
libccp's registers; `Obs.setCwnd`/`setRate` of the model carry the 64-bit register value.) The `u32` narrowing in
`ccp_invoke` concerns `snd_cwnd` loaded from the primitives, which a pending `Cwnd` then overwrites.

Findings (all consequences of the complete theorems; checked examples at the end):
1. update-fields with 128..255 pairs (portus: `num_fields : u8`) is refused by libccp with -52, nothing staged:
   the count is read from one signed byte (`updatefield_over_127_refused`). Hence (a) is for ≤ 127 pairs.
2. a register that is neither control nor implicit (portus' encoder accepts any `Reg`) makes libccp return -53,
   but the pairs *before* it stay staged and those after it are dropped; in a change-program message the
   program switch is staged all the same.
3. implicit registers 0..3 are accepted with 0 and silently dropped.
4. a change-program message discards updates staged by earlier update-fields messages and not yet applied by
   an invocation (intended by libccp: "clear any staged but not applied updates").
5. unknown uid in change-program: return code 8 (positive: the byte count left in `ret`), nothing changes.
-/
namespace Portus.C06
open Portus Portus.Wire Portus.Lang Portus.Vm

/-! ## zero padding is invisible to libccp's readers -/

theorem bAt_pad (b : Bytes) (k i : Nat) : bAt (b ++ zeros k) i = bAt b i := by
  unfold bAt zeros
  rw [List.getD_eq_getElem?_getD, List.getD_eq_getElem?_getD]
  rcases Nat.lt_or_ge i b.length with h | h
  · rw [List.getElem?_append_left h]
  · rw [List.getElem?_append_right h, List.getElem?_eq_none h, List.getElem?_replicate]
    split <;> rfl

theorem drop_pad (b : Bytes) (k j : Nat) : ∃ k', (b ++ zeros k).drop j = b.drop j ++ zeros k' := by
  refine ⟨k - (j - b.length), ?_⟩
  rw [List.drop_append]
  unfold zeros
  rw [List.drop_replicate]

theorem rd16_pad (b : Bytes) (k : Nat) : rd16 (b ++ zeros k) = rd16 b := by
  simp only [rd16, bAt_pad]

theorem rd32_pad (b : Bytes) (k : Nat) : rd32 (b ++ zeros k) = rd32 b := by
  simp only [rd32, bAt_pad]

theorem rd64_pad (b : Bytes) (k : Nat) : rd64 (b ++ zeros k) = rd64 b := by
  obtain ⟨k', h⟩ := drop_pad b k 4
  simp only [rd64, h, rd32_pad]

theorem readUpds_pad : ∀ (n : Nat) (b : Bytes) (k : Nat),
    Libccp.readUpds n (b ++ zeros k) = Libccp.readUpds n b
  | 0, _, _ => rfl
  | n + 1, b, k => by
    obtain ⟨k1, h1⟩ := drop_pad b k 1
    obtain ⟨k5, h5⟩ := drop_pad b k 5
    obtain ⟨k13, h13⟩ := drop_pad b k 13
    simp only [Libccp.readUpds, h1, h5, h13, bAt_pad, rd32_pad, rd64_pad, readUpds_pad n]


/-! ## `ccp_read_msg` of the datapath model (`Vm.readMsg`) takes a message apart as the reader `Libccp.readMsg` does -/

theorem libccp_uf_inv {buf : Bytes} {sid : Nat} {us : List Libccp.Upd}
    (h : Libccp.readMsg buf = some (.updateFields sid us)) :
    rd16 buf = 3 ∧ rd16 (buf.drop 2) ≤ buf.length ∧ rd16 (buf.drop 2) ≤ 32678 ∧
    sid = rd32 (buf.drop 4) ∧ Libccp.signedByteAsU32 (bAt (buf.drop 8) 0) ≤ 222 ∧
    us = Libccp.readUpds (Libccp.signedByteAsU32 (bAt (buf.drop 8) 0)) ((buf.drop 8).drop 4) := by
  unfold Libccp.readMsg at h
  have hB : Libccp.BIGGEST_MSG_SIZE = 32678 := rfl
  have hM : Libccp.MAX_MUTABLE_REG = 222 := rfl
  by_cases h1 : buf.length < 8
  · rw [if_pos h1] at h; cases h
  rw [if_neg h1] at h
  by_cases h2 : rd16 buf ≠ 2 ∧ rd16 buf ≠ 3 ∧ rd16 buf ≠ 4
  · rw [if_pos h2] at h; cases h
  rw [if_neg h2] at h
  by_cases h3 : rd16 (buf.drop 2) > buf.length
  · rw [if_pos h3] at h; cases h
  rw [if_neg h3] at h
  by_cases h4 : rd16 (buf.drop 2) > Libccp.BIGGEST_MSG_SIZE
  · rw [if_pos h4] at h; cases h
  rw [if_neg h4] at h
  by_cases h5 : rd16 buf = 2
  · rw [if_pos h5] at h; cases h
  rw [if_neg h5] at h
  by_cases h6 : rd16 buf = 3
  · rw [if_pos h6] at h
    by_cases h7 : Libccp.signedByteAsU32 (bAt (buf.drop 8) 0) > Libccp.MAX_MUTABLE_REG
    · rw [if_pos h7] at h; cases h
    rw [if_neg h7] at h
    simp only [Option.some.injEq, Libccp.CtlMsg.updateFields.injEq] at h
    exact ⟨h6, by omega, by omega, h.1.symm, by omega, h.2.symm⟩
  · rw [if_neg h6] at h
    dsimp only at h
    split at h <;> cases h

theorem libccp_cp_inv {buf : Bytes} {sid uid : Nat} {us : List Libccp.Upd}
    (h : Libccp.readMsg buf = some (.changeProg sid uid us)) :
    rd16 buf = 4 ∧ rd16 (buf.drop 2) ≤ buf.length ∧ rd16 (buf.drop 2) ≤ 32678 ∧
    sid = rd32 (buf.drop 4) ∧ uid = rd32 (buf.drop 8) ∧ rd32 ((buf.drop 8).drop 4) ≤ 222 ∧
    us = Libccp.readUpds (rd32 ((buf.drop 8).drop 4)) ((buf.drop 8).drop 8) := by
  unfold Libccp.readMsg at h
  have hB : Libccp.BIGGEST_MSG_SIZE = 32678 := rfl
  have hM : Libccp.MAX_MUTABLE_REG = 222 := rfl
  by_cases h1 : buf.length < 8
  · rw [if_pos h1] at h; cases h
  rw [if_neg h1] at h
  by_cases h2 : rd16 buf ≠ 2 ∧ rd16 buf ≠ 3 ∧ rd16 buf ≠ 4
  · rw [if_pos h2] at h; cases h
  rw [if_neg h2] at h
  by_cases h3 : rd16 (buf.drop 2) > buf.length
  · rw [if_pos h3] at h; cases h
  rw [if_neg h3] at h
  by_cases h4 : rd16 (buf.drop 2) > Libccp.BIGGEST_MSG_SIZE
  · rw [if_pos h4] at h; cases h
  rw [if_neg h4] at h
  by_cases h5 : rd16 buf = 2
  · rw [if_pos h5] at h; cases h
  rw [if_neg h5] at h
  by_cases h6 : rd16 buf = 3
  · rw [if_pos h6] at h
    dsimp only at h
    split at h <;> cases h
  · rw [if_neg h6] at h
    dsimp only at h
    by_cases h7 : rd32 ((buf.drop 8).drop 4) > Libccp.MAX_MUTABLE_REG
    · rw [if_pos h7] at h; cases h
    rw [if_neg h7] at h
    simp only [Option.some.injEq, Libccp.CtlMsg.changeProg.injEq] at h
    exact ⟨by omega, by omega, by omega, h.1.symm, h.2.1.symm, by omega, h.2.2.symm⟩

/-- the return code `ccp_read_msg` derives from `stage_multiple_updates` -/
def stageRc (r : Pending × Int) : Int := if r.2 < 0 then r.2 else 0

/-- **the datapath acts on what the reader read (update-fields).** Whenever libccp's reader takes `buf` apart
into an update-fields message for flow `sid` with records `us`, and flow `sid` exists, `ccp_read_msg` stages
exactly `us` on top of the flow's pending updates. -/
theorem readMsg_of_libccp_uf (dp : Dp) (buf : Bytes) (sid : Nat) (us : List Libccp.Upd) (c : Conn)
    (h : Libccp.readMsg buf = some (.updateFields sid us)) (hc : getConn dp sid = some c) :
    readMsg dp buf =
      (setConn dp sid { c with pending := (stageUpdates c.pending us).1 }, stageRc (stageUpdates c.pending us)) := by
  obtain ⟨t0, t2, t2', rfl, hn, rfl⟩ := libccp_uf_inv h
  obtain ⟨k2, d2⟩ := drop_pad buf 64 2
  obtain ⟨k4, d4⟩ := drop_pad buf 64 4
  obtain ⟨k8, d8⟩ := drop_pad buf 16384 8
  obtain ⟨k12, d12⟩ := drop_pad (buf.drop 8) k8 4
  unfold readMsg
  simp only [d2, d4, d8, d12, rd16_pad, rd32_pad, bAt_pad, readUpds_pad, t0, hc]
  rw [if_neg (by omega), if_neg (by omega), if_neg (by omega), if_neg (by omega), if_pos True.intro,
    if_neg (by omega)]
  rfl

/-- **the datapath acts on what the reader read (change-program).** -/
theorem readMsg_of_libccp_cp (dp : Dp) (buf : Bytes) (sid uid : Nat) (us : List Libccp.Upd) (c : Conn)
    (h : Libccp.readMsg buf = some (.changeProg sid uid us)) (hc : getConn dp sid = some c) :
    readMsg dp buf =
      match lookupUid dp uid with
      | none => (dp, 8)
      | some idx =>
        (setConn dp sid { c with staged := some idx, pending := (stageUpdates Pending.none us).1 },
          stageRc (stageUpdates Pending.none us)) := by
  obtain ⟨t0, t2, t2', rfl, rfl, hn, rfl⟩ := libccp_cp_inv h
  obtain ⟨k2, d2⟩ := drop_pad buf 64 2
  obtain ⟨k4, d4⟩ := drop_pad buf 64 4
  obtain ⟨k8, d8⟩ := drop_pad buf 16384 8
  obtain ⟨k12, d12⟩ := drop_pad (buf.drop 8) k8 4
  obtain ⟨k16, d16⟩ := drop_pad (buf.drop 8) k8 8
  unfold readMsg
  simp only [d2, d4, d8, d12, d16, rd16_pad, rd32_pad, bAt_pad, readUpds_pad, t0, hc]
  rw [if_neg (by omega), if_neg (by omega), if_neg (by omega), if_neg (by omega), if_neg (by omega),
    if_neg (by omega)]
  rfl

/-! ## what `stage_multiple_updates` does with portus' records: the specification -/

/-- the registers libccp's `stage_update` does not refuse: control registers of either class (wire classes 0
and 8) and implicit registers (wire class 2) -/
def libccpAccepts : Reg → Bool
  | .control _ _ _ => true
  | .implicit _ _ => true
  | _ => false

/-- the registers for which an update has an effect: control registers, `Cwnd` (implicit 4), `Rate` (implicit 5) -/
def updatable : Reg → Bool
  | .control _ _ _ => true
  | .implicit i _ => i == 4 || i == 5
  | _ => false

theorem updatable_accepts {r : Reg} (h : updatable r = true) : libccpAccepts r = true := by
  cases r <;> first | rfl | exact h

/-- one (register, value) pair written over the pending updates. libccp does not narrow the value: control
registers, `Cwnd` and `Rate` all take the full 64 bits of the wire field (`UInt64.ofNat` is the identity on
values `< 2^64`, which is what the 8-byte field holds). Implicit registers other than 4 and 5 are accepted and
dropped. -/
def applyUpd (p : Pending) (f : Reg × Nat) : Pending :=
  match f.1 with
  | .control i _ _ => { p with control := p.control.set i (some (UInt64.ofNat f.2)) }
  | .implicit i _ =>
    if i = 4 then { p with cwnd := some (UInt64.ofNat f.2) }
    else if i = 5 then { p with rate := some (UInt64.ofNat f.2) }
    else p
  | _ => p

/-- the pairs written in message order: later entries win -/
def applyUpds : Pending → List (Reg × Nat) → Pending
  | p, [] => p
  | p, f :: rest => applyUpds (applyUpd p f) rest

theorem stage_step (p : Pending) (r : Reg) (v : Nat) (u : Libccp.Upd) (rest : List Libccp.Upd)
    (h : r.classIdx = .ok (u.cls, u.idx)) (hv : u.val = v) :
    stageUpdates p (u :: rest) =
      if libccpAccepts r = true then stageUpdates (applyUpd p (r, v)) rest else (p, -53) := by
  obtain ⟨cls, idx, val⟩ := u
  simp only at h hv
  subst hv
  cases r with
  | control j t vol =>
    simp only [Reg.classIdx] at h
    split at h
    · cases h
    · simp only [Out.ok.injEq, Prod.mk.injEq] at h
      obtain ⟨rfl, rfl⟩ := h
      cases vol <;> simp [stageUpdates, libccpAccepts, applyUpd]
  | implicit j t =>
    simp only [Reg.classIdx] at h
    split at h
    · cases h
    · simp only [Out.ok.injEq, Prod.mk.injEq] at h
      obtain ⟨rfl, rfl⟩ := h
      simp only [stageUpdates, libccpAccepts, applyUpd]
      by_cases h4 : j = 4
      · subst h4; simp
      · by_cases h5 : j = 5
        · subst h5; simp
        · simp [h4, h5]
  | immNum n =>
    simp only [Reg.classIdx] at h
    split at h
    · simp only [Out.ok.injEq, Prod.mk.injEq] at h
      obtain ⟨rfl, rfl⟩ := h
      simp [stageUpdates, libccpAccepts]
    · cases h
  | immBool b =>
    simp only [Reg.classIdx, Out.ok.injEq, Prod.mk.injEq] at h
    obtain ⟨rfl, rfl⟩ := h
    simp [stageUpdates, libccpAccepts]
  | «local» j t =>
    simp only [Reg.classIdx] at h
    split at h
    · cases h
    · simp only [Out.ok.injEq, Prod.mk.injEq] at h
      obtain ⟨rfl, rfl⟩ := h
      simp [stageUpdates, libccpAccepts]
  | primitive j t =>
    simp only [Reg.classIdx] at h
    split at h
    · cases h
    · simp only [Out.ok.injEq, Prod.mk.injEq] at h
      obtain ⟨rfl, rfl⟩ := h
      simp [stageUpdates, libccpAccepts]
  | report j t vol =>
    simp only [Reg.classIdx] at h
    split at h
    · cases h
    · simp only [Out.ok.injEq, Prod.mk.injEq] at h
      obtain ⟨rfl, rfl⟩ := h
      cases vol <;> simp [stageUpdates, libccpAccepts]
  | tmp j t =>
    simp only [Reg.classIdx] at h
    split at h
    · cases h
    · simp only [Out.ok.injEq, Prod.mk.injEq] at h
      obtain ⟨rfl, rfl⟩ := h
      simp [stageUpdates, libccpAccepts]
  | none => simp [Reg.classIdx, unreachableP] at h

/-- **`stage_multiple_updates` on portus' records, completely**: the pairs up to the first register libccp
refuses are written in order; the return code is 0 if there is none and -53 (`LIBCCP_UPDATE_INVALID_REG_TYPE`)
otherwise — the updates before the refused one stay staged. -/
theorem stageUpdates_spec : ∀ (fs : List (Reg × Nat)) (us : List Libccp.Upd) (p : Pending), updsMatch fs us →
    stageUpdates p us =
      (applyUpds p (fs.takeWhile fun f => libccpAccepts f.1),
        if fs.all (fun f => libccpAccepts f.1) = true then 0 else -53)
  | [], [], p, _ => rfl
  | [], _ :: _, _, h => by simp only [updsMatch] at h
  | _ :: _, [], _, h => by simp only [updsMatch] at h
  | (r, v) :: ps, u :: us, p, h => by
    simp only [updsMatch] at h
    rw [stage_step p r v u us h.1 h.2.1]
    by_cases ha : libccpAccepts r = true
    · rw [if_pos ha, stageUpdates_spec ps us _ h.2.2]
      simp only [List.takeWhile_cons, ha, List.all_cons, Bool.true_and, applyUpds, if_true]
    · rw [if_neg ha]
      simp only [Bool.not_eq_true] at ha
      simp only [List.takeWhile_cons, ha, List.all_cons, Bool.false_and]
      rfl

/-- on accepted lists `stage_multiple_updates` is `applyUpds` -/
theorem stageUpdates_applyUpds (fs : List (Reg × Nat)) (us : List Libccp.Upd) (p : Pending)
    (hm : updsMatch fs us) (ha : ∀ f ∈ fs, libccpAccepts f.1 = true) :
    stageUpdates p us = (applyUpds p fs, 0) := by
  rw [stageUpdates_spec fs us p hm]
  have h1 : ∀ l : List (Reg × Nat), (∀ f ∈ l, libccpAccepts f.1 = true) →
      l.takeWhile (fun f => libccpAccepts f.1) = l := by
    intro l
    induction l with
    | nil => intro _; rfl
    | cons a l ih =>
      intro hl
      rw [List.takeWhile_cons, hl a (List.mem_cons_self ..), ih (fun f hf => hl f (List.mem_cons_of_mem _ hf))]
      rfl
  have h1 := h1 fs ha
  have h2 : fs.all (fun f => libccpAccepts f.1) = true := by
    rw [List.all_eq_true]; exact ha
  rw [h1, h2]
  rfl

theorem stageRc_spec (x : Pending) (b : Bool) : stageRc (x, if b = true then 0 else -53) = if b = true then 0 else -53 := by
  cases b <;> rfl

/-! ## (a) update-fields -/

/-- **`ccp_read_msg` on portus' update-fields message, completely** (flow exists, at most 127 records): the
flow's pending updates are overwritten, in message order, by the pairs up to the first register libccp refuses;
the return code is 0 if every register is a control or implicit register and -53 otherwise. Nothing else in the
datapath changes (`setConn`). -/
theorem updatefield_acts (dp : Dp) (c : Conn) (m : UpdateField) (bytes : Bytes) (hb : builtUF m)
    (hc : getConn dp m.sid = some c) (h : serializeUpdateField m = .ok bytes) (hl : m.fields.length ≤ 127) :
    readMsg dp bytes =
      (setConn dp m.sid
          { c with pending := applyUpds c.pending (m.fields.takeWhile fun f => libccpAccepts f.1) },
        if m.fields.all (fun f => libccpAccepts f.1) = true then 0 else -53) := by
  obtain ⟨_, _, _, us, hr, hm⟩ := updatefield_read_by_libccp m bytes hb h hl
  rw [readMsg_of_libccp_uf dp bytes m.sid us c hr hc, stageUpdates_spec m.fields us c.pending hm, stageRc_spec]

/-- **(a) libccp accepts portus' update-fields message and stages it.** For a flow `sid` that exists, a message
the library built for it (`builtUF`: count = number of pairs, 32-bit flow id, 64-bit values) that serializes,
with at most 127 pairs (see `updatefield_over_127_refused`), all naming control registers, `Cwnd` or `Rate`:
`ccp_read_msg` returns 0 and the flow's pending updates are the old ones overwritten in message order by
exactly the message's pairs. -/
theorem updatefield_staged (dp : Dp) (sid : Nat) (c : Conn) (m : UpdateField) (bytes : Bytes)
    (hb : builtUF m) (hsid : m.sid = sid) (hc : getConn dp sid = some c)
    (h : serializeUpdateField m = .ok bytes) (hl : m.fields.length ≤ 127)
    (hu : ∀ f ∈ m.fields, updatable f.1 = true) :
    readMsg dp bytes = (setConn dp sid { c with pending := applyUpds c.pending m.fields }, 0) ∧
    getConn (readMsg dp bytes).1 sid = some { c with pending := applyUpds c.pending m.fields } := by
  subst hsid
  obtain ⟨_, _, _, us, hr, hm⟩ := updatefield_read_by_libccp m bytes hb h hl
  have e : readMsg dp bytes = (setConn dp m.sid { c with pending := applyUpds c.pending m.fields }, 0) := by
    rw [readMsg_of_libccp_uf dp bytes m.sid us c hr hc,
      stageUpdates_applyUpds m.fields us c.pending hm (fun f hf => updatable_accepts (hu f hf))]
    rfl
  refine ⟨e, ?_⟩
  rw [e]
  exact C01.getConn_setConn dp m.sid c _ hc

/-! ## (b) change-program -/

/-- **`ccp_read_msg` on portus' change-program message, completely** (flow exists, at most 222 records).
Unknown uid: return code 8 (the byte count `read_change_prog_msg` left in `ret`), nothing changes. Known uid:
the program index is staged and the pending updates are *replaced* (libccp clears them first) by the pairs up to
the first refused register; 0 or -53 as for update-fields — with -53 the program switch is staged all the same. -/
theorem changeprog_acts (dp : Dp) (c : Conn) (m : ChangeProg) (bytes : Bytes) (hb : builtCP m)
    (hc : getConn dp m.sid = some c) (h : serializeChangeProg m = .ok bytes) (hl : m.fields.length ≤ 222) :
    readMsg dp bytes =
      match lookupUid dp m.uid with
      | none => (dp, 8)
      | some idx =>
        (setConn dp m.sid
            { c with staged := some idx,
                     pending := applyUpds Pending.none (m.fields.takeWhile fun f => libccpAccepts f.1) },
          if m.fields.all (fun f => libccpAccepts f.1) = true then 0 else -53) := by
  obtain ⟨_, _, _, us, hr, hm⟩ := changeprog_read_by_libccp m bytes hb h hl
  rw [readMsg_of_libccp_cp dp bytes m.sid m.uid us c hr hc, stageUpdates_spec m.fields us Pending.none hm,
    stageRc_spec]

/-- **(b) libccp accepts portus' change-program message and stages program and fields.** The uid resolves to
`idx`: `ccp_read_msg` returns 0, stages `idx`, and the pending updates are `Pending.none` overwritten by exactly
the message's pairs (updates staged earlier and not yet applied are discarded). -/
theorem changeprog_staged (dp : Dp) (sid idx : Nat) (c : Conn) (m : ChangeProg) (bytes : Bytes)
    (hb : builtCP m) (hsid : m.sid = sid) (hc : getConn dp sid = some c)
    (h : serializeChangeProg m = .ok bytes) (hl : m.fields.length ≤ 222)
    (hu : ∀ f ∈ m.fields, updatable f.1 = true) (hidx : lookupUid dp m.uid = some idx) :
    readMsg dp bytes =
      (setConn dp sid { c with staged := some idx, pending := applyUpds Pending.none m.fields }, 0) ∧
    getConn (readMsg dp bytes).1 sid =
      some { c with staged := some idx, pending := applyUpds Pending.none m.fields } := by
  subst hsid
  obtain ⟨_, _, _, us, hr, hm⟩ := changeprog_read_by_libccp m bytes hb h hl
  have e : readMsg dp bytes =
      (setConn dp m.sid { c with staged := some idx, pending := applyUpds Pending.none m.fields }, 0) := by
    rw [readMsg_of_libccp_cp dp bytes m.sid m.uid us c hr hc, hidx,
      stageUpdates_applyUpds m.fields us Pending.none hm (fun f hf => updatable_accepts (hu f hf))]
    rfl
  refine ⟨e, ?_⟩
  rw [e]
  exact C01.getConn_setConn dp m.sid c _ hc

/-- **(b) unknown uid**: return code 8 and the datapath (so the flow) is unchanged. -/
theorem changeprog_unknown_uid (dp : Dp) (sid : Nat) (c : Conn) (m : ChangeProg) (bytes : Bytes)
    (hb : builtCP m) (hsid : m.sid = sid) (hc : getConn dp sid = some c)
    (h : serializeChangeProg m = .ok bytes) (hl : m.fields.length ≤ 222)
    (hidx : lookupUid dp m.uid = none) :
    readMsg dp bytes = (dp, 8) := by
  subst hsid
  rw [changeprog_acts dp c m bytes hb hc h hl, hidx]

/-! ## (c) the next `ccp_invoke` applies the pending updates before the program runs -/

/-- control registers overwritten by the pending control updates (`zip`: position by position) -/
def overlayCtl (ctl : List Val) (pc : List (Option Val)) : List Val :=
  (ctl.zip pc).map fun p => match p.2 with | some v => v | none => p.1

/-- the implicit registers with `Cwnd` (4) / `Rate` (5) overwritten by a pending value -/
def overlayImpl (impl : List Val) (cwnd rate : Option Val) : List Val :=
  let impl := match cwnd with | some v => impl.set 4 v | none => impl
  match rate with | some v => impl.set 5 v | none => impl

/-- `ccp_invoke`'s first step: `Cwnd`/`Rate` loaded from the datapath's primitives (`snd_cwnd` through a `u32`) -/
def loadPrims (c : Conn) (prims : Prims) : Conn :=
  C01.withImpl c ((c.regs.impl.set 4 (prims.sndCwnd.toUInt32.toUInt64)).set 5 prims.sndRate)

/-- the pending updates applied and cleared -/
def applyPending (c : Conn) : Conn :=
  { c with regs := { c.regs with control := overlayCtl c.regs.control c.pending.control,
                                 impl := overlayImpl c.regs.impl c.pending.cwnd c.pending.rate },
           pending := Pending.none }

/-- the observation the state machine starts from: `set_cwnd` / `set_rate_abs` are called for a pending
non-zero `Cwnd` / `Rate` -/
def preObs (p : Pending) : Vm.Obs :=
  { rc := 0,
    setCwnd := match p.cwnd with | some v => if v != 0 then some v else none | none => none,
    setRate := match p.rate with | some v => if v != 0 then some v else none | none => none,
    report := none }

theorem afterSwitchPart_eq (dp : Dp) (sid : Nat) (env : Env) (c : Conn) (p : Program)
    (hp : lookupIndex dp c.programIndex = some p) :
    C01.afterSwitchPart dp sid env c =
      some (setConn dp sid (stateMachine env p (applyPending c) (preObs c.pending)).1,
        (stateMachine env p (applyPending c) (preObs c.pending)).2) := by
  obtain ⟨regs, t0, pi, st, ⟨pc, cw, rt⟩⟩ := c
  simp only at hp
  unfold C01.afterSwitchPart
  cases cw <;> cases rt <;> simp only [hp, applyPending, preObs, overlayCtl, overlayImpl] <;> rfl

theorem applyPending_pending (c : Conn) : (applyPending c).pending = Pending.none := rfl

/-- **(c) pending updates are applied before the program runs.** For a flow with no staged program switch whose
program is installed, `ccp_invoke` is the state machine started from the flow's state with `Cwnd`/`Rate`
loaded from the primitives and then the pending updates written over control registers, `Cwnd` and `Rate`
(in this order, as in `ccp_invoke`), from the observation that carries the `set_cwnd`/`set_rate_abs` calls made
for a pending non-zero `Cwnd`/`Rate`; the pending updates are cleared, and still are after the invocation. -/
theorem pending_applied (dp : Dp) (sid : Nat) (p : Program) (c : Conn) (now : Val) (prims : Prims)
    (hc : getConn dp sid = some c) (hst : c.staged = none) (hp : lookupIndex dp c.programIndex = some p) :
    invoke dp sid now prims =
      some (setConn dp sid
          (stateMachine ⟨now, 0, prims⟩ p (applyPending (loadPrims c prims)) (preObs c.pending)).1,
        (stateMachine ⟨now, 0, prims⟩ p (applyPending (loadPrims c prims)) (preObs c.pending)).2) ∧
    ∀ dp' o, invoke dp sid now prims = some (dp', o) →
      ∃ c', getConn dp' sid = some c' ∧ c'.pending = Pending.none ∧ c'.staged = none := by
  have hsw : C01.switched dp ⟨now, 0, prims⟩ now (loadPrims c prims) = loadPrims c prims := by
    unfold C01.switched
    have e1 : (loadPrims c prims).staged = none := hst
    rw [e1]
  have e : invoke dp sid now prims = _ :=
    (C01.invoke_split dp sid now prims c hc).trans
      ((congrArg _ hsw).trans (afterSwitchPart_eq dp sid ⟨now, 0, prims⟩ (loadPrims c prims) p hp))
  refine ⟨e, ?_⟩
  intro dp' o h
  rw [e] at h
  simp only [Option.some.injEq, Prod.mk.injEq] at h
  obtain ⟨rfl, _⟩ := h
  have k := C01.stateMachine_keep ⟨now, 0, prims⟩ p (applyPending (loadPrims c prims)) (preObs c.pending)
  exact ⟨_, C01.getConn_setConn dp sid c _ hc, k.pend, k.st.trans hst⟩

/-- nothing pending: `applyPending` is the identity, `preObs` the empty observation — `C01.invoke_steady` is this
special case of `pending_applied` -/
theorem applyPending_none (c : Conn) (hpend : c.pending = Pending.none) (hctl : c.regs.control.length ≤ 110) :
    applyPending c = c ∧ preObs c.pending = { rc := 0, setCwnd := none, setRate := none, report := none } := by
  obtain ⟨regs, t0, pi, st, pend⟩ := c
  simp only at hpend hctl
  subst hpend
  refine ⟨?_, rfl⟩
  have h : overlayCtl regs.control (List.replicate 110 none) = regs.control :=
    C01.zip_none_map regs.control 110 hctl
  simp only [applyPending, overlayImpl, Pending.none, h]

/-! ## reading the specification: later entries win -/

/-- the value of the last pair whose register satisfies `sel` -/
def lastOf (sel : Reg → Bool) : List (Reg × Nat) → Option Nat
  | [] => none
  | f :: rest =>
    match lastOf sel rest with
    | some w => some w
    | none => if sel f.1 = true then some f.2 else none

/-- `r` is control register `k` (of either class) -/
def namesCtl (k : Nat) : Reg → Bool
  | .control i _ _ => i == k
  | _ => false

def isCwnd : Reg → Bool
  | .implicit i _ => i == 4
  | _ => false

def isRate : Reg → Bool
  | .implicit i _ => i == 5
  | _ => false

theorem applyUpd_control_length (p : Pending) (f : Reg × Nat) :
    (applyUpd p f).control.length = p.control.length := by
  obtain ⟨r, v⟩ := f
  cases r <;> simp only [applyUpd] <;> (try split) <;> (try split) <;> simp only [List.length_set]

theorem applyUpds_control_length : ∀ (fs : List (Reg × Nat)) (p : Pending),
    (applyUpds p fs).control.length = p.control.length
  | [], _ => rfl
  | f :: fs, p => by
    rw [applyUpds, applyUpds_control_length fs, applyUpd_control_length]

theorem applyUpd_control_getD (p : Pending) (f : Reg × Nat) (k : Nat) (hk : k < p.control.length) :
    (applyUpd p f).control.getD k none =
      if namesCtl k f.1 = true then some (UInt64.ofNat f.2) else p.control.getD k none := by
  obtain ⟨r, v⟩ := f
  cases r with
  | control i t vol =>
    simp only [applyUpd, namesCtl, beq_iff_eq]
    by_cases hik : i = k
    · subst hik
      rw [if_pos rfl, List.getD_eq_getElem?_getD, List.getElem?_set_self hk]
      rfl
    · rw [if_neg hik, List.getD_eq_getElem?_getD, List.getD_eq_getElem?_getD, List.getElem?_set_ne hik]
  | implicit i t =>
    simp only [applyUpd, namesCtl]
    split
    · rfl
    · split <;> rfl
  | _ => rfl

/-- **later entries win, control registers**: after the pairs are written, pending control slot `k` holds the
value of the last pair naming control register `k`, or what it held before if there is none -/
theorem applyUpds_control_getD : ∀ (fs : List (Reg × Nat)) (p : Pending) (k : Nat), k < p.control.length →
    (applyUpds p fs).control.getD k none =
      match lastOf (namesCtl k) fs with
      | some v => some (UInt64.ofNat v)
      | none => p.control.getD k none
  | [], _, _, _ => rfl
  | f :: fs, p, k, hk => by
    rw [applyUpds, applyUpds_control_getD fs (applyUpd p f) k (by rw [applyUpd_control_length]; exact hk)]
    simp only [lastOf]
    cases lastOf (namesCtl k) fs with
    | some w => rfl
    | none =>
      simp only
      rw [applyUpd_control_getD p f k hk]
      split <;> rfl

theorem applyUpd_cwnd (p : Pending) (f : Reg × Nat) :
    (applyUpd p f).cwnd = if isCwnd f.1 = true then some (UInt64.ofNat f.2) else p.cwnd := by
  obtain ⟨r, v⟩ := f
  cases r with
  | implicit i t =>
    simp only [applyUpd, isCwnd, beq_iff_eq]
    by_cases h4 : i = 4
    · rw [if_pos h4, if_pos h4]
    · rw [if_neg h4, if_neg h4]; split <;> rfl
  | _ => rfl

theorem applyUpd_rate (p : Pending) (f : Reg × Nat) :
    (applyUpd p f).rate = if isRate f.1 = true then some (UInt64.ofNat f.2) else p.rate := by
  obtain ⟨r, v⟩ := f
  cases r with
  | implicit i t =>
    simp only [applyUpd, isRate, beq_iff_eq]
    by_cases h4 : i = 4
    · subst h4; rfl
    · rw [if_neg h4]
      by_cases h5 : i = 5
      · rw [if_pos h5, if_pos h5]
      · rw [if_neg h5, if_neg h5]
  | _ => rfl

/-- **later entries win, `Cwnd`** -/
theorem applyUpds_cwnd : ∀ (fs : List (Reg × Nat)) (p : Pending),
    (applyUpds p fs).cwnd =
      match lastOf isCwnd fs with
      | some v => some (UInt64.ofNat v)
      | none => p.cwnd
  | [], _ => rfl
  | f :: fs, p => by
    rw [applyUpds, applyUpds_cwnd fs (applyUpd p f)]
    simp only [lastOf]
    cases lastOf isCwnd fs with
    | some w => rfl
    | none =>
      simp only
      rw [applyUpd_cwnd p f]
      split <;> rfl

/-- **later entries win, `Rate`** -/
theorem applyUpds_rate : ∀ (fs : List (Reg × Nat)) (p : Pending),
    (applyUpds p fs).rate =
      match lastOf isRate fs with
      | some v => some (UInt64.ofNat v)
      | none => p.rate
  | [], _ => rfl
  | f :: fs, p => by
    rw [applyUpds, applyUpds_rate fs (applyUpd p f)]
    simp only [lastOf]
    cases lastOf isRate fs with
    | some w => rfl
    | none =>
      simp only
      rw [applyUpd_rate p f]
      split <;> rfl

/-- position `k` of the overwritten control registers -/
theorem overlayCtl_getD : ∀ (ctl : List Val) (pc : List (Option Val)) (k : Nat), k < ctl.length → k < pc.length →
    (overlayCtl ctl pc).getD k 0 = match pc.getD k none with | some v => v | none => ctl.getD k 0
  | [], _, _, h, _ => by simp only [List.length_nil] at h; omega
  | _ :: _, [], _, _, h => by simp only [List.length_nil] at h; omega
  | a :: ctl, x :: pc, 0, _, _ => by cases x <;> rfl
  | a :: ctl, x :: pc, k + 1, h1, h2 => by
    simp only [List.length_cons] at h1 h2
    have ih := overlayCtl_getD ctl pc k (by omega) (by omega)
    simp only [overlayCtl, List.zip_cons_cons, List.map_cons, List.getD_cons_succ] at ih ⊢
    exact ih

/-! ## (d) in plain words -/

theorem serializeUpdates_mem : ∀ (fs : List (Reg × Nat)) (b : Bytes), serializeUpdates fs = .ok b →
    ∀ f ∈ fs, ∃ ci, f.1.classIdx = .ok ci
  | [], _, _, _, hf => by cases hf
  | (r, v) :: ps, b, h, f, hf => by
    simp only [serializeUpdates] at h
    cases hr : r.serialize with
    | err => simp [hr] at h
    | panic => simp [hr] at h
    | ok rb =>
      cases ht : serializeUpdates ps with
      | err => simp [hr, ht] at h
      | panic => simp [hr, ht] at h
      | ok tail =>
        rcases List.mem_cons.mp hf with rfl | hf'
        · obtain ⟨c, i, hci, _⟩ := Reg.serialize_ok hr
          exact ⟨_, hci⟩
        · exact serializeUpdates_mem ps tail ht f hf'

theorem serializeUpdateField_fields {m : UpdateField} {bytes : Bytes} (h : serializeUpdateField m = .ok bytes) :
    ∃ ub, serializeUpdates m.fields = .ok ub := by
  unfold serializeUpdateField serializeWith at h
  split at h
  · cases h
  · cases hup : serializeUpdates m.fields with
    | err => simp [hup] at h
    | panic => simp [hup] at h
    | ok ub => exact ⟨ub, rfl⟩

theorem lastOf_mem (sel : Reg → Bool) : ∀ (fs : List (Reg × Nat)) (v : Nat), lastOf sel fs = some v →
    ∃ f ∈ fs, sel f.1 = true
  | [], _, h => by cases h
  | f :: fs, v, h => by
    simp only [lastOf] at h
    cases hl : lastOf sel fs with
    | some w =>
      obtain ⟨g, hg, hs⟩ := lastOf_mem sel fs w hl
      exact ⟨g, List.mem_cons_of_mem _ hg, hs⟩
    | none =>
      rw [hl] at h
      simp only at h
      split at h
      · rename_i hs; exact ⟨f, List.mem_cons_self .., hs⟩
      · cases h

/-- a control register named in a message that serializes has index at most 15 (`Reg::into_iter` refuses more) -/
theorem ctl_index_le_15' {fs : List (Reg × Nat)} {ub : Bytes} (hub : serializeUpdates fs = .ok ub) {k v : Nat}
    (hlast : lastOf (namesCtl k) fs = some v) : k ≤ 15 := by
  obtain ⟨f, hf, hs⟩ := lastOf_mem _ _ _ hlast
  obtain ⟨ci, hci⟩ := serializeUpdates_mem fs ub hub f hf
  obtain ⟨r, w⟩ := f
  cases r with
  | control i t vol =>
    simp only [namesCtl, beq_iff_eq] at hs
    subst hs
    simp only [Reg.classIdx] at hci
    split at hci
    · cases hci
    · omega
  | _ => cases hs

theorem ctl_index_le_15 {m : UpdateField} {bytes : Bytes} (h : serializeUpdateField m = .ok bytes) {k v : Nat}
    (hlast : lastOf (namesCtl k) m.fields = some v) : k ≤ 15 := by
  obtain ⟨ub, hub⟩ := serializeUpdateField_fields h
  exact ctl_index_le_15' hub hlast

/-- the flow state the state machine starts from at the first invocation after an update-fields message with
pairs `fs` has been read -/
def afterUpdate (c : Conn) (fs : List (Reg × Nat)) (prims : Prims) : Conn :=
  applyPending (loadPrims { c with pending := applyUpds c.pending fs } prims)

/-- **(d) an update takes effect at the next invocation.** After portus' update-fields message has been read
by libccp (return code 0), the next `ccp_invoke` of the flow runs the program from a state in which control
register `k` — read through either class, 0 or 8 — holds the value `v` of the message's last pair naming it.
`k` must exist in both register files (both have 110 entries in every state the model reaches; `k ≤ 15` follows
from the message having serialized). -/
theorem update_takes_effect (dp : Dp) (sid : Nat) (c : Conn) (m : UpdateField) (bytes : Bytes) (p : Program)
    (k v : Nat) (now : Val) (prims : Prims)
    (hb : builtUF m) (hsid : m.sid = sid) (hc : getConn dp sid = some c)
    (h : serializeUpdateField m = .ok bytes) (hl : m.fields.length ≤ 127)
    (hu : ∀ f ∈ m.fields, updatable f.1 = true)
    (hst : c.staged = none) (hp : lookupIndex dp c.programIndex = some p)
    (hk1 : k < c.regs.control.length) (hk2 : k < c.pending.control.length)
    (hlast : lastOf (namesCtl k) m.fields = some v) :
    ∃ dp', readMsg dp bytes = (dp', 0) ∧
      invoke dp' sid now prims =
        some (setConn dp' sid
            (stateMachine ⟨now, 0, prims⟩ p (afterUpdate c m.fields prims) (preObs (applyUpds c.pending m.fields))).1,
          (stateMachine ⟨now, 0, prims⟩ p (afterUpdate c m.fields prims) (preObs (applyUpds c.pending m.fields))).2) ∧
      readReg ⟨now, 0, prims⟩ (afterUpdate c m.fields prims) ⟨0, k⟩ = UInt64.ofNat v ∧
      readReg ⟨now, 0, prims⟩ (afterUpdate c m.fields prims) ⟨8, k⟩ = UInt64.ofNat v := by
  obtain ⟨e, hg⟩ := updatefield_staged dp sid c m bytes hb hsid hc h hl hu
  rw [e] at hg
  refine ⟨_, e, ?_, ?_⟩
  · exact (pending_applied _ sid p { c with pending := applyUpds c.pending m.fields } now prims hg hst hp).1
  · have hv : (afterUpdate c m.fields prims).regs.control.getD k 0 = UInt64.ofNat v := by
      show (overlayCtl c.regs.control (applyUpds c.pending m.fields).control).getD k 0 = _
      rw [overlayCtl_getD _ _ k hk1 (by rw [applyUpds_control_length]; exact hk2),
        applyUpds_control_getD m.fields c.pending k hk2, hlast]
    exact ⟨hv, hv⟩

/-- **(d), the one-variable message of `Datapath::update_field(&[(name, v)])`**: after the message "control
variable `k` := `v`" has been read, the next invocation runs the program with control register `k` holding `v`. -/
theorem update_control_takes_effect (dp : Dp) (sid : Nat) (c : Conn) (k v : Nat) (t : Ty) (vol : Bool)
    (bytes : Bytes) (p : Program) (now : Val) (prims : Prims)
    (hsid : sid < 2^32) (hv : v < 2^64) (hc : getConn dp sid = some c)
    (h : serializeUpdateField ⟨sid, 1, [(.control k t vol, v)]⟩ = .ok bytes)
    (hst : c.staged = none) (hp : lookupIndex dp c.programIndex = some p)
    (hk1 : k < c.regs.control.length) (hk2 : k < c.pending.control.length) :
    ∃ dp' c1 o1, readMsg dp bytes = (dp', 0) ∧
      invoke dp' sid now prims =
        some (setConn dp' sid (stateMachine ⟨now, 0, prims⟩ p c1 o1).1, (stateMachine ⟨now, 0, prims⟩ p c1 o1).2) ∧
      readReg ⟨now, 0, prims⟩ c1 ⟨if vol then 8 else 0, k⟩ = UInt64.ofNat v ∧ (UInt64.ofNat v).toNat = v := by
  have hlast : lastOf (namesCtl k) [(Reg.control k t vol, v)] = some v := by
    simp only [lastOf, namesCtl, beq_self_eq_true, if_true]
  obtain ⟨dp', e1, e2, e3, e4⟩ := update_takes_effect dp sid c ⟨sid, 1, [(.control k t vol, v)]⟩ bytes p k v now prims
    ⟨rfl, hsid, by intro q hq; simp only [List.mem_singleton] at hq; subst hq; exact hv⟩ rfl hc h (by simp)
    (by intro f hf; simp only [List.mem_singleton] at hf; subst hf; rfl) hst hp hk1 hk2 hlast
  refine ⟨dp', _, _, e1, e2, ?_, ?_⟩
  · cases vol
    · exact e3
    · exact e4
  · rw [UInt64.toNat_ofNat']; omega

/-! ## the same after a change-program message: the switch comes first, then the message's fields -/

theorem switched_frame (dp : Dp) (env : Env) (now : Val) (c : Conn) (idx : Nat) (p : Program)
    (hst : c.staged = some idx) (hp : lookupIndex dp idx = some p) :
    (C01.switched dp env now c).pending = c.pending ∧ (C01.switched dp env now c).programIndex = idx ∧
    (C01.switched dp env now c).staged = none ∧
    (C01.switched dp env now c).regs.control.length = c.regs.control.length := by
  unfold C01.switched
  rw [hst]
  simp only [hp]
  have f := (C01.resetState_frame env p { c with programIndex := idx, staged := none }).trans
    (C01.initRegisterState_frame env p _)
  exact ⟨f.pend, f.pi, f.st, f.ctl⟩

/-- **(c) with a staged program switch**: `ccp_invoke` first switches to the staged program (`switched`: DEF
initialisation of the new program's registers) and then applies the pending updates — so the fields of a
change-program message override the new program's DEF values — and runs the new program. -/
theorem pending_applied_switch (dp : Dp) (sid idx : Nat) (p : Program) (c : Conn) (now : Val) (prims : Prims)
    (hc : getConn dp sid = some c) (hst : c.staged = some idx) (hp : lookupIndex dp idx = some p) :
    invoke dp sid now prims =
      some (setConn dp sid
          (stateMachine ⟨now, 0, prims⟩ p
            (applyPending (C01.switched dp ⟨now, 0, prims⟩ now (loadPrims c prims))) (preObs c.pending)).1,
        (stateMachine ⟨now, 0, prims⟩ p
            (applyPending (C01.switched dp ⟨now, 0, prims⟩ now (loadPrims c prims))) (preObs c.pending)).2) := by
  obtain ⟨f1, f2, _, _⟩ := switched_frame dp ⟨now, 0, prims⟩ now (loadPrims c prims) idx p hst hp
  have hp' : lookupIndex dp (C01.switched dp ⟨now, 0, prims⟩ now (loadPrims c prims)).programIndex = some p := by
    rw [f2]; exact hp
  have e := afterSwitchPart_eq dp sid ⟨now, 0, prims⟩ (C01.switched dp ⟨now, 0, prims⟩ now (loadPrims c prims)) p hp'
  rw [f1] at e
  exact (C01.invoke_split dp sid now prims c hc).trans e

theorem serializeChangeProg_fields {m : ChangeProg} {bytes : Bytes} (h : serializeChangeProg m = .ok bytes) :
    ∃ ub, serializeUpdates m.fields = .ok ub := by
  unfold serializeChangeProg u32LenP serializeWith at h
  split at h
  · cases h
  split at h
  · cases h
  · cases hup : serializeUpdates m.fields with
    | err => simp [hup] at h
    | panic => simp [hup] at h
    | ok ub => exact ⟨ub, rfl⟩

/-- **(d) for change-program**: after portus' change-program message (program `uid`, installed as `idx` ↦ `p`,
with field overrides) has been read, the next `ccp_invoke` runs `p` from a state in which control register `k`
holds the value of the message's last pair naming it — whatever the program's DEF said. -/
theorem changeprog_takes_effect (dp : Dp) (sid idx : Nat) (c : Conn) (m : ChangeProg) (bytes : Bytes) (p : Program)
    (k v : Nat) (now : Val) (prims : Prims)
    (hb : builtCP m) (hsid : m.sid = sid) (hc : getConn dp sid = some c)
    (h : serializeChangeProg m = .ok bytes) (hl : m.fields.length ≤ 222)
    (hu : ∀ f ∈ m.fields, updatable f.1 = true)
    (hidx : lookupUid dp m.uid = some idx) (hp : lookupIndex dp idx = some p)
    (hk1 : k < c.regs.control.length)
    (hlast : lastOf (namesCtl k) m.fields = some v) :
    ∃ dp' c1 o1, readMsg dp bytes = (dp', 0) ∧
      invoke dp' sid now prims =
        some (setConn dp' sid (stateMachine ⟨now, 0, prims⟩ p c1 o1).1, (stateMachine ⟨now, 0, prims⟩ p c1 o1).2) ∧
      c1.programIndex = idx ∧ c1.pending = Pending.none ∧
      readReg ⟨now, 0, prims⟩ c1 ⟨0, k⟩ = UInt64.ofNat v ∧ readReg ⟨now, 0, prims⟩ c1 ⟨8, k⟩ = UInt64.ofNat v := by
  obtain ⟨e, hg⟩ := changeprog_staged dp sid idx c m bytes hb hsid hc h hl hu hidx
  rw [e] at hg
  obtain ⟨ub, hub⟩ := serializeChangeProg_fields h
  have hk15 := ctl_index_le_15' hub hlast
  generalize hc2 : ({ c with staged := some idx, pending := applyUpds Pending.none m.fields } : Conn) = c2 at hg e
  have hc2s : c2.staged = some idx := by rw [← hc2]
  have hc2p : c2.pending = applyUpds Pending.none m.fields := by rw [← hc2]
  have hc2l : c2.regs.control.length = c.regs.control.length := by rw [← hc2]
  have hp' : lookupIndex (setConn dp sid c2) idx = some p := hp
  obtain ⟨f1, f2, _, f4⟩ := switched_frame (setConn dp sid c2) ⟨now, 0, prims⟩ now (loadPrims c2 prims) idx p hc2s hp'
  refine ⟨_, _, _, e, pending_applied_switch _ sid idx p c2 now prims hg hc2s hp', f2, rfl, ?_⟩
  have hlen : (applyUpds Pending.none m.fields).control.length = 110 := by
    rw [applyUpds_control_length]; exact List.length_replicate ..
  have hv : (applyPending (C01.switched (setConn dp sid c2) ⟨now, 0, prims⟩ now (loadPrims c2 prims))).regs.control.getD k 0
      = UInt64.ofNat v := by
    show (overlayCtl _ _).getD k 0 = _
    have f1' : (C01.switched (setConn dp sid c2) ⟨now, 0, prims⟩ now (loadPrims c2 prims)).pending
        = applyUpds Pending.none m.fields := f1.trans hc2p
    have f4' : (C01.switched (setConn dp sid c2) ⟨now, 0, prims⟩ now (loadPrims c2 prims)).regs.control.length
        = c.regs.control.length := f4.trans hc2l
    rw [overlayCtl_getD _ _ k (by rw [f4']; exact hk1) (by rw [f1', hlen]; omega), f1',
      applyUpds_control_getD m.fields Pending.none k (by show k < (List.replicate 110 _).length; rw [List.length_replicate]; omega),
      hlast]
  exact ⟨hv, hv⟩

/-! ## Finding: update-fields messages with 128..255 pairs are refused by libccp

portus' `update_field::Msg` carries `num_fields : u8`, so the library builds (and `serializeUpdateField` encodes)
messages with up to 255 pairs. libccp reads the count with `(u32)*buf` on a `char *`: one *signed* byte. A count
of 128..255 becomes `0xFFFFFF80..0xFFFFFFFF`, fails `num_updates > MAX_MUTABLE_REG` and the whole message is
refused with -52 (`LIBCCP_UPDATE_TOO_MANY`): nothing is staged. So (a) is stated for at most 127 pairs, and
this is the rest. (Change-program reads its count as a `u32` and takes up to 222 pairs.) -/

theorem updatefield_over_127_refused (dp : Dp) (c : Conn) (m : UpdateField) (bytes : Bytes) (hb : builtUF m)
    (hc : getConn dp m.sid = some c) (h : serializeUpdateField m = .ok bytes)
    (hl : 128 ≤ m.fields.length) (hl' : m.fields.length ≤ 255) :
    readMsg dp bytes = (dp, -52) ∧ Libccp.readMsg bytes = none := by
  obtain ⟨hn, hs, hv⟩ := hb
  unfold serializeUpdateField serializeWith at h
  split at h
  · cases h
  · cases hup : serializeUpdates m.fields with
    | err => simp [hup] at h
    | panic => simp [hup] at h
    | ok ub =>
      simp [hup] at h
      obtain ⟨ul, _⟩ := readUpds_serializeUpdates m.fields ub [] hv hup
      have hblen : bytes.length = 12 + 13 * m.fields.length := by
        rw [← h]; simp [ul]; omega
      have e : bytes = le16 3 ++ (le16 (8 + 4 + m.numFields * 13) ++ (le32 m.sid ++
          (le32 m.numFields ++ ub))) := by
        rw [← h]; simp [serializeHeader, UPDATE_FIELD, List.append_assoc]
      have t0 : rd16 bytes = 3 := by rw [e, rd16_le16_append]
      have d2 : bytes.drop 2 = le16 (8 + 4 + m.numFields * 13) ++ (le32 m.sid ++
          (le32 m.numFields ++ ub)) := by rw [e]; simp [le16]
      have d4 : bytes.drop 4 = le32 m.sid ++ (le32 m.numFields ++ ub) := by rw [e]; simp [le16]
      have d8 : bytes.drop 8 = le32 m.numFields ++ ub := by rw [e]; simp [le16, le32]
      have t2 : rd16 (bytes.drop 2) = bytes.length := by
        rw [d2, rd16_le16_append, hblen, hn]; omega
      have t4 : rd32 (bytes.drop 4) = m.sid := by
        rw [d4, rd32_le32_append]; omega
      have tb : bAt (bytes.drop 8) 0 = m.fields.length := by
        rw [d8]; simp [le32, byte_toNat, hn]; omega
      have hsb : Libccp.signedByteAsU32 m.fields.length > 222 := by
        simp only [Libccp.signedByteAsU32]; rw [if_neg (by omega)]; omega
      constructor
      · obtain ⟨k2, p2⟩ := drop_pad bytes 64 2
        obtain ⟨k4, p4⟩ := drop_pad bytes 64 4
        obtain ⟨k8, p8⟩ := drop_pad bytes 16384 8
        unfold readMsg
        simp only [p2, p4, p8, rd16_pad, rd32_pad, bAt_pad, t0, t2, t4, tb, hc]
        rw [if_neg (by omega), if_neg (by omega), if_neg (by omega), if_neg (by omega), if_pos True.intro,
          if_pos hsb]
      · unfold Libccp.readMsg
        rw [if_neg (by omega)]
        simp only [t0, t2, tb]
        rw [if_neg (by omega), if_neg (by omega), if_neg (by simp [Libccp.BIGGEST_MSG_SIZE]; omega)]
        simp only [show (3:Nat) ≠ 2 by decide, if_false, if_true]
        rw [if_pos (by simp only [Libccp.MAX_MUTABLE_REG]; exact hsb)]

/-! ## Non-vacuity: a concrete datapath, flow and messages (kernel-checked) -/

/-- a program with no events installed under uid 7 in slot 1 -/
def exProg : Program := { uid := 7, exprs := [], instrs := [], numToReturn := 0 }

/-- flow 1 runs it; control register 3 holds 1 and an update of control register 0 is already pending -/
def exConn : Conn :=
  { newConn with programIndex := 1,
                 regs := { Regs.zero with control := Regs.zero.control.set 3 1 },
                 pending := { Pending.none with control := Pending.none.control.set 0 (some 77) } }

def exDp : Dp :=
  { programs := (1, exProg) :: List.replicate 9 (0, emptyProgram), conns := [some exConn, none, none, none] }

/-- "control 3 := 5, Cwnd := 10" for flow 1 -/
def exMsg : UpdateField := ⟨1, 2, [(.control 3 .none false, 5), (.implicit 4 .none, 10)]⟩

def exBytes : Bytes :=
  [3,0, 38,0, 1,0,0,0, 2,0,0,0, 0, 3,0,0,0, 5,0,0,0,0,0,0,0, 2, 4,0,0,0, 10,0,0,0,0,0,0,0]

theorem exMsg_bytes : serializeUpdateField exMsg = .ok exBytes := by decide
theorem exMsg_built : builtUF exMsg := ⟨rfl, by decide, by decide⟩
theorem exConn_get : getConn exDp 1 = some exConn := by decide

/-- the hypotheses of (a) hold of the example, and its conclusion computes -/
example : readMsg exDp exBytes = (setConn exDp 1 { exConn with pending := applyUpds exConn.pending exMsg.fields }, 0) :=
  (updatefield_staged exDp 1 exConn exMsg exBytes exMsg_built rfl exConn_get exMsg_bytes (by decide) (by decide)).1

example : (readMsg exDp exBytes).2 = 0 ∧
    ((getConn (readMsg exDp exBytes).1 1).map fun c =>
      (c.pending.control.getD 0 none, c.pending.control.getD 3 none, c.pending.cwnd, c.pending.rate, c.regs == exConn.regs))
    = some (some 77, some 5, some 10, none, true) := by decide +kernel

/-- (c)/(d) on the example: the next invocation runs with control 0 = 77 (pending before), control 3 = 5, calls
`set_cwnd(10)` (`Rate` keeps the 30 loaded from the primitives), and leaves nothing pending -/
example :
    ((invoke (readMsg exDp exBytes).1 1 100 ⟨List.replicate 15 0, 20, 30⟩).map fun r =>
      (r.2, (getConn r.1 1).map fun c => (c.regs.control.getD 0 0, c.regs.control.getD 3 0, c.regs.impl.getD 4 0)))
    = some (⟨0, some 10, some 30, none⟩, some (77, 5, 10)) ∧
    ((invoke (readMsg exDp exBytes).1 1 100 ⟨List.replicate 15 0, 20, 30⟩).map fun r =>
      (getConn r.1 1).map fun c => (c.regs.impl.getD 5 0, c.pending))
    = some (some (30, Pending.none)) := by decide +kernel

example : ∃ dp' c1 o1, readMsg exDp exBytes = (dp', 0) ∧
    invoke dp' 1 100 ⟨[], 20, 30⟩ =
      some (setConn dp' 1 (stateMachine ⟨100, 0, ⟨[], 20, 30⟩⟩ exProg c1 o1).1,
        (stateMachine ⟨100, 0, ⟨[], 20, 30⟩⟩ exProg c1 o1).2) ∧
    readReg ⟨100, 0, ⟨[], 20, 30⟩⟩ c1 ⟨0, 3⟩ = 5 := by
  obtain ⟨dp', e1, e2, e3, _⟩ := update_takes_effect exDp 1 exConn exMsg exBytes exProg 3 5 100 ⟨[], 20, 30⟩
    exMsg_built rfl exConn_get exMsg_bytes (by decide) (by decide) rfl (by decide) (by decide) (by decide) (by decide)
  exact ⟨dp', _, _, e1, e2, e3⟩

/-- the change-program message "program 7 with control 3 := 5, Cwnd := 10" for flow 1 (bytes as in `Props/C06`) -/
def exCP : ChangeProg := ⟨1, 7, 2, [(.control 3 .none false, 5), (.implicit 4 .none, 10)]⟩

def exCPBytes : Bytes :=
  [4,0,42,0, 1,0,0,0, 7,0,0,0, 2,0,0,0, 0,3,0,0,0, 5,0,0,0,0,0,0,0, 2,4,0,0,0, 10,0,0,0,0,0,0,0]

theorem exCP_bytes : serializeChangeProg exCP = .ok exCPBytes := by decide
theorem exCP_built : builtCP exCP := ⟨rfl, by decide, by decide, by decide⟩

/-- (b) on the example: program index 1 staged; the update of control 0 that was pending is gone -/
example : readMsg exDp exCPBytes =
    (setConn exDp 1 { exConn with staged := some 1, pending := applyUpds Pending.none exCP.fields }, 0) :=
  (changeprog_staged exDp 1 1 exConn exCP exCPBytes exCP_built rfl exConn_get exCP_bytes (by decide) (by decide)
    (by decide)).1

example : (readMsg exDp exCPBytes).2 = 0 ∧
    ((getConn (readMsg exDp exCPBytes).1 1).map fun c =>
      (c.staged, c.pending.control.getD 0 none, c.pending.control.getD 3 none, c.pending.cwnd))
    = some (some 1, none, some 5, some 10) := by decide +kernel

/-- (b), unknown uid 9: return code 8, flow untouched -/
example : (readMsg exDp [4,0,16,0, 1,0,0,0, 9,0,0,0, 0,0,0,0]).2 = 8 ∧
    getConn (readMsg exDp [4,0,16,0, 1,0,0,0, 9,0,0,0, 0,0,0,0]).1 1 = some exConn := by decide +kernel

/-! ## Findings, as checked examples (each is an instance of `updatefield_acts` / `changeprog_acts`) -/

/-- 128 pairs: portus encodes the message, libccp refuses it with -52 and stages nothing -/
example :
    (match serializeUpdateField ⟨1, 128, List.replicate 128 (.control 3 .none false, 5)⟩ with
     | .ok b => decide ((readMsg exDp b).2 = -52 ∧ getConn (readMsg exDp b).1 1 = some exConn ∧ Libccp.readMsg b = none)
     | _ => false) = true := by decide +kernel

/-- 127 pairs are taken -/
example :
    (match serializeUpdateField ⟨1, 127, List.replicate 127 (.control 3 .none false, 5)⟩ with
     | .ok b => decide ((readMsg exDp b).2 = 0)
     | _ => false) = true := by decide +kernel

/-- a register libccp does not update (here a report register) in the middle of a message: portus encodes it,
libccp returns -53, *keeps* the pairs before it and drops those after it -/
example :
    (match serializeUpdateField ⟨1, 3, [(.control 3 .none false, 5), (.report 0 .none false, 7), (.control 4 .none false, 9)]⟩ with
     | .ok b => decide ((readMsg exDp b).2 = -53 ∧
         ((getConn (readMsg exDp b).1 1).map fun c => (c.pending.control.getD 3 none, c.pending.control.getD 4 none))
           = some (some 5, none))
     | _ => false) = true := by decide +kernel

/-- the same in a change-program message: -53, and the program switch is staged all the same -/
example :
    (match serializeChangeProg ⟨1, 7, 1, [(.report 0 .none false, 7)]⟩ with
     | .ok b => decide ((readMsg exDp b).2 = -53 ∧ (getConn (readMsg exDp b).1 1).map (·.staged) = some (some 1))
     | _ => false) = true := by decide +kernel

/-- implicit registers other than `Cwnd`/`Rate` (here 2, "should report"): accepted with 0 and silently dropped -/
example :
    (match serializeUpdateField ⟨1, 1, [(.implicit 2 .none, 1)]⟩ with
     | .ok b => decide ((readMsg exDp b).2 = 0 ∧ getConn (readMsg exDp b).1 1 = some exConn)
     | _ => false) = true := by decide +kernel

/-- an update-fields message followed by a change-program message before any invocation: the update is lost
(libccp: "clear any staged but not applied updates, as they are now irrelevant") -/
example :
    ((getConn (readMsg (readMsg exDp exBytes).1 [4,0,16,0, 1,0,0,0, 7,0,0,0, 0,0,0,0]).1 1).map fun c =>
      (c.staged, c.pending)) = some (some 1, Pending.none) := by decide +kernel

/-- remark: libccp resolves the flow id through a 16-bit index (`getConn`: `sid % 65536`); the theorems speak
about the flow `sid` resolves to, which for an id beyond 16 bits is another flow's state -/
example : getConn exDp 65537 = some exConn := by decide

/-! ## axioms -/
#print axioms updatefield_staged
#print axioms updatefield_acts
#print axioms changeprog_staged
#print axioms changeprog_unknown_uid
#print axioms changeprog_acts
#print axioms pending_applied
#print axioms pending_applied_switch
#print axioms update_takes_effect
#print axioms update_control_takes_effect
#print axioms changeprog_takes_effect
#print axioms updatefield_over_127_refused
#print axioms stageUpdates_spec
#print axioms readMsg_of_libccp_uf
#print axioms readMsg_of_libccp_cp

end Portus.C06
