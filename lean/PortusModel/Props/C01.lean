import PortusModel.Lang.Fragment
import PortusModel.Vm.Datapath
/-!
# C01 — compiled bytecode computes what the datapath program source says

`Sem` is the source semantics (names, eager left-to-right evaluation, in-place conditionals/ewma,
first-true-event rule, volatile reset after a report); `Vm` is libccp. This file holds the oracle
(translation validation: source semantics vs observed datapath behaviour) and the theorems proved so
far about the compiler against the machine (see the end of the file for what is proved and what is
`_partial`).
-/
namespace Portus.C01
open Portus Portus.Lang Portus.Vm Portus.Lang.Frag

/-! ## the oracle's fragment: stratified programs, plus hazard-free nested binds

The definitions (`writesIn`, `resultName`, `noHazard`, `valueE`, `stmtOk2`, `InOracle`) live in `Lang/Fragment.lean`
(namespace `Portus.Lang.Frag`) since the simulation theorem (`C01Sim.compiled_run_correct`) is now about exactly this
fragment; they are re-exported here under their former names `Portus.C01.*`. A plain bind `(:= y e)` may occur *as a
value* inside an expression, provided no operator reads, as its left operand, a variable that its right operand
assigns (operand registers are read when the consuming instruction runs, DESIGN 6.3: there the datapath sees the
later value and the documentation is silent), and the nested target is an ordinary variable (not a built-in register,
whose write transforms the value). A guarded bind `(:= y (if c v))` / `(:= y (!if c v))` / `(:= y (ewma a v))` may
occur as a value under the same discipline (its result register is the register of `y`; its two operands are
hazard-free against each other, as at statement level; non-vacuity: `guardedNestedSrc_*` in `C01Sim.lean`).
A *bare* operator expression that is such a value expression may be a statement of a body (`(+ (:= x 1) 2)`,
`(> a b)`): the compiler emits its code and does not use the result temporary, the source semantics evaluates it for
its nested binds and its faults and drops the value (non-vacuity: `bareStmtSrc_*`, `bareFaultSrc_*` in `C01Sim.lean`).
On such programs the source semantics is unambiguous; the check compares it with
what the real datapath computes, and the theorem proves that the compiled code computes it. -/

export Portus.Lang.Frag (writesIn resultName noHazard valueE stmtOk2 InOracle writesIn_pure valueE_of_pure
  noHazard_of_pure stmtOk2_of_stmtOk inOracle_of_stratified)

/-- **`C01.check`**: for a source in the fragment, the observed per-invocation behaviour of the
datapath (which invocations fault and with which code, cwnd/rate settings, which invocations report
and every reported value) on the input sequence equals what the source denotes. `true` (vacuous)
when the source does not parse, is outside the fragment, has duplicate or built-in declared names, or
the source run leaves the fragment (`&&`/`||` on non-truth values). -/
def check (src : List Char) (upd : List (Name × Nat)) (inputs : List Env) (observed : List IObs) : Bool :=
  match parseSource src with
  | none => true
  | some (ds, evs) =>
    if !InOracle evs then true else
    if !(decide ((ds.map (·.var)).Nodup) && ds.all (fun d => ((Scope.new 0).get d.var).isNone)) then true else
    match varDecls ds upd with
    | none => true
    | some decls =>
      match inputs with
      | [] => observed.isEmpty
      | env0 :: _ =>
        let expected := Sem.run decls evs (Sem.initState decls env0.now) inputs
        match expected.mapM ofSem with
        | none => true
        | some exp => exp == observed

/-- why `check` is vacuous on an input, or "in-fragment" (for the evidence: how much of the generated
set the oracle really decides) -/
def fragment (src : List Char) (upd : List (Name × Nat)) (inputs : List Env) : String :=
  match parseSource src with
  | none => "vacuous-noparse"
  | some (ds, evs) =>
    if !InOracle evs then "vacuous-not-stratified" else
    if !(decide ((ds.map (·.var)).Nodup) && ds.all (fun d => ((Scope.new 0).get d.var).isNone)) then "vacuous-names" else
    match varDecls ds upd with
    | none => "vacuous-inits"
    | some decls =>
      match inputs with
      | [] => "in-fragment"
      | env0 :: _ =>
        match (Sem.run decls evs (Sem.initState decls env0.now) inputs).mapM ofSem with
        | none => "vacuous-boolexact-or-undenoted"
        | some _ => "in-fragment"

end Portus.C01
