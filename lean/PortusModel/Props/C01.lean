import PortusModel.Lang.Fragment
import PortusModel.Vm.Datapath
/-!
# C01 — compiled bytecode computes what the datapath program source says

`Sem` is the source semantics (names, eager left-to-right evaluation, in-place conditionals/ewma,
first-true-event rule, volatile reset after a report); `Vm` is libccp. This file holds the oracle
(translation validation: source semantics vs observed datapath behaviour) and the theorems proved so
far about the compiler against the machine (see the end of the file for what is proved and what is
`_partial`).
-/
namespace Portus.C01
open Portus Portus.Lang Portus.Vm Portus.Lang.Frag

/-! ## the oracle's fragment: stratified programs, plus hazard-free nested binds

The theorem (`C01Sim.compiled_run_correct`) is about `Stratified` programs. The oracle decides more: a plain bind
`(:= y e)` may also occur *as a value* inside an expression, provided no operator reads, as its left operand, a
variable that its right operand assigns (operand registers are read when the consuming instruction runs, DESIGN 6.3:
there the datapath sees the later value and the documentation is silent), and the nested target is an ordinary
variable (not a built-in register, whose write transforms the value). On such programs the source semantics is
unambiguous, and the check compares it with what the real datapath computes. -/

def writesIn : Expr → List Name
  | .sexp .bind (.atom (.name x)) r => x :: writesIn r
  | .sexp _ l r => writesIn l ++ writesIn r
  | _ => []

/-- the variable whose register is the operand's result register, if any -/
def resultName : Expr → Option Name
  | .atom (.name x) => some x
  | .sexp .bind (.atom (.name x)) _ => some x
  | _ => none

def noHazard (l r : Expr) : Bool :=
  match resultName l with
  | some x => !(writesIn r).contains x
  | none => true

/-- usable as a value: operators over atoms and nested plain binds to ordinary variables, hazard-free -/
def valueE : Expr → Bool
  | .atom _ => true
  | .sexp .bind (.atom (.name x)) r => !isBuiltinName x && valueE r
  | .sexp o l r =>
    (match o with | .bind | .if | .notIf | .ewma | .def => false | _ => true) && valueE l && valueE r && noHazard l r
  | _ => false

def stmtOk2 : Expr → Bool
  | .none => true
  | .sexp .bind (.atom (.name _)) (.sexp .if c v) => valueE c && valueE v && noHazard c v
  | .sexp .bind (.atom (.name _)) (.sexp .notIf c v) => valueE c && valueE v && noHazard c v
  | .sexp .bind (.atom (.name _)) (.sexp .ewma a v) => valueE a && valueE v && noHazard a v
  | .sexp .bind (.atom (.name _)) r => valueE r
  | _ => false

/-- the programs the oracle decides -/
def InOracle (evs : List Event) : Bool := evs.all fun ev => pureE ev.flag && ev.body.all stmtOk2

theorem writesIn_pure {e : Expr} (h : pureE e = true) : writesIn e = [] := by
  induction e with
  | atom p => rfl
  | cmd c => simp [pureE] at h
  | none => simp [pureE] at h
  | sexp o l r ihl ihr =>
    simp only [pureE, Bool.and_eq_true] at h
    obtain ⟨⟨ho, hl⟩, hr⟩ := h
    cases o <;> simp_all [writesIn]

theorem valueE_of_pure {e : Expr} (h : pureE e = true) : valueE e = true := by
  induction e with
  | atom p => rfl
  | cmd c => simp [pureE] at h
  | none => simp [pureE] at h
  | sexp o l r ihl ihr =>
    simp only [pureE, Bool.and_eq_true] at h
    obtain ⟨⟨ho, hl⟩, hr⟩ := h
    have hw := writesIn_pure hr
    have hn : noHazard l r = true := by
      unfold noHazard; split <;> simp [hw]
    cases o <;> simp_all [valueE]

theorem noHazard_of_pure {l r : Expr} (hr : pureE r = true) : noHazard l r = true := by
  unfold noHazard; split <;> simp [writesIn_pure hr]

theorem stmtOk2_of_stmtOk {e : Expr} (h : stmtOk e = true) : stmtOk2 e = true := by
  unfold stmtOk at h
  split at h
  · rfl
  · simp only [Bool.and_eq_true] at h
    simp [stmtOk2, valueE_of_pure h.1, valueE_of_pure h.2, noHazard_of_pure h.2]
  · simp only [Bool.and_eq_true] at h
    simp [stmtOk2, valueE_of_pure h.1, valueE_of_pure h.2, noHazard_of_pure h.2]
  · simp only [Bool.and_eq_true] at h
    simp [stmtOk2, valueE_of_pure h.1, valueE_of_pure h.2, noHazard_of_pure h.2]
  · rename_i x r h1 h2 h3
    have hv := valueE_of_pure h
    unfold stmtOk2
    split <;> simp_all [pureE]
  · cases h

theorem inOracle_of_stratified {evs : List Event} (h : Stratified evs = true) : InOracle evs = true := by
  unfold Stratified at h
  unfold InOracle
  simp only [List.all_eq_true, Bool.and_eq_true] at h ⊢
  intro ev hev
  exact ⟨(h ev hev).1, fun e he => stmtOk2_of_stmtOk ((h ev hev).2 e he)⟩

/-- **`C01.check`**: for a source in the fragment, the observed per-invocation behaviour of the
datapath (which invocations fault and with which code, cwnd/rate settings, which invocations report
and every reported value) on the input sequence equals what the source denotes. `true` (vacuous)
when the source does not parse, is outside the fragment, has duplicate or built-in declared names, or
the source run leaves the fragment (`&&`/`||` on non-truth values). -/
def check (src : List Char) (upd : List (Name × Nat)) (inputs : List Env) (observed : List IObs) : Bool :=
  match parseSource src with
  | none => true
  | some (ds, evs) =>
    if !InOracle evs then true else
    if !(decide ((ds.map (·.var)).Nodup) && ds.all (fun d => ((Scope.new 0).get d.var).isNone)) then true else
    match varDecls ds upd with
    | none => true
    | some decls =>
      match inputs with
      | [] => observed.isEmpty
      | env0 :: _ =>
        let expected := Sem.run decls evs (Sem.initState decls env0.now) inputs
        match expected.mapM ofSem with
        | none => true
        | some exp => exp == observed

/-- why `check` is vacuous on an input, or "in-fragment" (for the evidence: how much of the generated
set the oracle really decides) -/
def fragment (src : List Char) (upd : List (Name × Nat)) (inputs : List Env) : String :=
  match parseSource src with
  | none => "vacuous-noparse"
  | some (ds, evs) =>
    if !InOracle evs then "vacuous-not-stratified" else
    if !(decide ((ds.map (·.var)).Nodup) && ds.all (fun d => ((Scope.new 0).get d.var).isNone)) then "vacuous-names" else
    match varDecls ds upd with
    | none => "vacuous-inits"
    | some decls =>
      match inputs with
      | [] => "in-fragment"
      | env0 :: _ =>
        match (Sem.run decls evs (Sem.initState decls env0.now) inputs).mapM ofSem with
        | none => "vacuous-boolexact-or-undenoted"
        | some _ => "in-fragment"

end Portus.C01
