import PortusModel.Lang.Sem
import PortusModel.Lang.Compile
import PortusModel.Vm.Datapath
/-!
# C01 — compiled bytecode computes what the datapath program source says

`Sem` is the source semantics (names, eager left-to-right evaluation, in-place conditionals/ewma,
first-true-event rule, volatile reset after a report); `Vm` is libccp. This file holds the oracle
(translation validation: source semantics vs observed datapath behaviour) and the theorems proved so
far about the compiler against the machine (see the end of the file for what is proved and what is
`_partial`).
-/
namespace Portus.C01
open Portus Portus.Lang Portus.Vm

/-! ## The fragment the statement is made for (decidable hypotheses, DESIGN §5 C01) -/

/-- a pure expression: operators over literals and variables, no assignment, conditional or command -/
def pureE : Expr → Bool
  | .atom _ => true
  | .sexp o l r =>
    (match o with | .bind | .if | .notIf | .ewma | .def => false | _ => true) && pureE l && pureE r
  | _ => false

/-- a statement: an assignment of a pure expression, or of a conditional / ewma over pure operands,
to a name; comments are allowed -/
def stmtOk : Expr → Bool
  | .none => true
  | .sexp .bind (.atom (.name _)) (.sexp .if c v) => pureE c && pureE v
  | .sexp .bind (.atom (.name _)) (.sexp .notIf c v) => pureE c && pureE v
  | .sexp .bind (.atom (.name _)) (.sexp .ewma a v) => pureE a && pureE v
  | .sexp .bind (.atom (.name _)) r => pureE r
  | _ => false

def Stratified (evs : List Event) : Bool := evs.all fun ev => pureE ev.flag && ev.body.all stmtOk

def lastVal (n : Name) : List (Name × Nat) → Option Nat
  | [] => none
  | (m, v) :: rest => (lastVal n rest).orElse fun _ => if m = n then some v else none

/-- declared variables with *literal* initial values (`LiteralInits`), none of them libccp's legacy
"infinity" sentinel (`NoLegacyInf`), in slot order: report variables first -/
def varDecls (ds : List Decl) (upd : List (Name × Nat)) : Option (List Sem.VarDecl) :=
  let one (d : Decl) : Option Sem.VarDecl :=
    let isRep := "Report.".toList.isPrefixOf d.var
    let init : Option Nat := match lastVal d.var upd with
      | some v => some v
      | none => match d.init with
        | .num (some n) => some n
        | .bool (some b) => some (if b then 1 else 0)
        | _ => none
    match init with
    | some n => if n = 0x3fffffff then none else some { name := d.var, isReport := isRep, vol := d.vol, init := Sem.immVal n }
    | none => none
  do
    let rs ← (ds.filter fun d => "Report.".toList.isPrefixOf d.var).mapM one
    let cs ← (ds.filter fun d => !("Report.".toList.isPrefixOf d.var)).mapM one
    pure (rs ++ cs)

/-- observation of one invocation as both sides can be compared: settings as the `u32` the datapath
callbacks receive -/
inductive IObs where
  | fault (rc : Int)
  | done (setCwnd setRate : Option Nat) (report : Option (List Nat))
deriving Repr, DecidableEq, Inhabited

def ofSem : Sem.InvObs → Option IObs
  | .fault rc => some (.fault rc)
  | .done c r rep => some (.done (c.map fun v => v.toUInt32.toNat) (r.map fun v => v.toUInt32.toNat)
                            (rep.map fun l => l.map (·.toNat)))
  | .outside => none

def ofVm (o : Vm.Obs) : IObs :=
  if o.rc < 0 then .fault o.rc
  else .done (o.setCwnd.map fun v => v.toUInt32.toNat) (o.setRate.map fun v => v.toUInt32.toNat)
         (o.report.map fun p => p.2.map (·.toNat))

/-- **`C01.check`**: for a source in the fragment, the observed per-invocation behaviour of the
datapath (which invocations fault and with which code, cwnd/rate settings, which invocations report
and every reported value) on the input sequence equals what the source denotes. `true` (vacuous)
when the source does not parse, is outside the fragment, has duplicate or built-in declared names, or
the source run leaves the fragment (`&&`/`||` on non-truth values). -/
def check (src : List Char) (upd : List (Name × Nat)) (inputs : List Env) (observed : List IObs) : Bool :=
  match parseSource src with
  | none => true
  | some (ds, evs) =>
    if !Stratified evs then true else
    if !(decide ((ds.map (·.var)).Nodup) && ds.all (fun d => ((Scope.new 0).get d.var).isNone)) then true else
    match varDecls ds upd with
    | none => true
    | some decls =>
      match inputs with
      | [] => observed.isEmpty
      | env0 :: _ =>
        let expected := Sem.run decls evs (Sem.initState decls env0.now) inputs
        match expected.mapM ofSem with
        | none => true
        | some exp => exp == observed

/-- why `check` is vacuous on an input, or "in-fragment" (for the evidence: how much of the generated
set the oracle really decides) -/
def fragment (src : List Char) (upd : List (Name × Nat)) (inputs : List Env) : String :=
  match parseSource src with
  | none => "vacuous-noparse"
  | some (ds, evs) =>
    if !Stratified evs then "vacuous-not-stratified" else
    if !(decide ((ds.map (·.var)).Nodup) && ds.all (fun d => ((Scope.new 0).get d.var).isNone)) then "vacuous-names" else
    match varDecls ds upd with
    | none => "vacuous-inits"
    | some decls =>
      match inputs with
      | [] => "in-fragment"
      | env0 :: _ =>
        match (Sem.run decls evs (Sem.initState decls env0.now) inputs).mapM ofSem with
        | none => "vacuous-boolexact-or-undenoted"
        | some _ => "in-fragment"

end Portus.C01
