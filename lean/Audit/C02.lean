import PortusModel.Props.C02
import PortusModel.Props.C02History
import PortusModel.Props.C02Loop
import PortusModel.Props.C02Bytes
#print axioms Portus.C02.other_ignored
#print axioms Portus.C02.measure_unknown_ignored
#print axioms Portus.C02.report_delivered
#print axioms Portus.C02.close_once_and_forget
#print axioms Portus.C02.create_one_handler
#print axioms Portus.C02.ready_drops_only_that_address
#print axioms Portus.Rt.runUser_spec
#print axioms Portus.Rt.step_ok
#print axioms Portus.C02.step_refines
#print axioms Portus.C02.history_refines_from
#print axioms Portus.C02.history_refines_flat_map
#print axioms Portus.C02.complete_run_equals_spec
#print axioms Portus.C02.report_reaches_current_handler_only
#print axioms Portus.C02.closed_flow_hears_nothing
#print axioms Portus.C02.Abs_init
#print axioms Portus.C02.loop_calls_eq_hist_calls
#print axioms Portus.C02.loop_refines_flat_map
#print axioms Portus.C02.wellformed_script_calls_prefix
#print axioms Portus.C02.wellformed_script_calls_eq_spec
