import PortusModel.Props.C02
#print axioms Portus.C02.other_ignored
#print axioms Portus.C02.measure_unknown_ignored
#print axioms Portus.C02.report_delivered
#print axioms Portus.C02.close_once_and_forget
#print axioms Portus.C02.create_one_handler
#print axioms Portus.C02.ready_drops_only_that_address
#print axioms Portus.Rt.runUser_spec
#print axioms Portus.Rt.step_ok
