import PortusModel.Props.C18
#print axioms Portus.C18.stop_poll_ends_reception
#print axioms Portus.C18.result_ok_iff_stopped
#print axioms Portus.C18.run_ignores_after_stop
#print axioms Portus.C18.stop_returns_ok
#print axioms Portus.C18.dispatch_after_stop_bounded
#print axioms Portus.C18.nothing_after_shutdown
#print axioms Portus.C16.run_no_panic
