import PortusModel.Props.C18
import PortusModel.Props.C18Own
#print axioms Portus.C18.stop_poll_ends_reception
#print axioms Portus.C18.result_ok_iff_stopped
#print axioms Portus.C18.run_ignores_after_stop
#print axioms Portus.C18.stop_returns_ok
#print axioms Portus.C18.dispatch_after_stop_bounded
#print axioms Portus.C18.nothing_after_shutdown
#print axioms Portus.C16.run_no_panic
#print axioms Portus.C18.stop_handle_balanced
#print axioms Portus.C18.close_called_once
#print axioms Portus.C18.close_exactly_once_under_discipline
#print axioms Portus.C18.dead_handle_cannot_send
