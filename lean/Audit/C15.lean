import PortusModel.Props.C15
#print axioms Portus.C15.pick_spec
#print axioms Portus.C15.pick_default
#print axioms Portus.C15.programs_are_union
