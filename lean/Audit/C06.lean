import PortusModel.Props.C06
#print axioms Portus.C06.changeprog_read_by_libccp
#print axioms Portus.C06.updatefield_read_by_libccp
#print axioms Portus.C06.install_read_by_libccp
#print axioms Portus.C06.header_len_honest_cp
#print axioms Portus.C06.header_len_honest_in
#print axioms Portus.C06.unrepresentable_fails_cp
#print axioms Portus.C06.unrepresentable_fails_uf
#print axioms Portus.C06.unrepresentable_fails_in
#print axioms Portus.C06.updsMatchB_iff
#print axioms Portus.C06.instrsMatchB_iff
