import PortusModel.Props.C06
import PortusModel.Props.C06Acts
import PortusModel.Props.C06Uid
import PortusModel.Props.Tables
#print axioms Portus.C06.updatefield_staged
#print axioms Portus.C06.updatefield_acts
#print axioms Portus.C06.changeprog_staged
#print axioms Portus.C06.changeprog_acts
#print axioms Portus.C06.changeprog_unknown_uid
#print axioms Portus.C06.pending_applied
#print axioms Portus.C06.pending_applied_switch
#print axioms Portus.C06.update_takes_effect
#print axioms Portus.C06.update_control_takes_effect
#print axioms Portus.C06.changeprog_takes_effect
#print axioms Portus.C06.updatefield_over_127_refused
#print axioms Portus.C06.stageUpdates_spec
#print axioms Portus.C06.changeprog_read_by_libccp
#print axioms Portus.C06.updatefield_read_by_libccp
#print axioms Portus.C06.install_read_by_libccp
#print axioms Portus.C06.header_len_honest_cp
#print axioms Portus.C06.header_len_honest_in
#print axioms Portus.C06.unrepresentable_fails_cp
#print axioms Portus.C06.unrepresentable_fails_uf
#print axioms Portus.C06.unrepresentable_fails_in
#print axioms Portus.C06.updsMatchB_iff
#print axioms Portus.C06.instrsMatchB_iff
#print axioms Portus.C06.first_uid_is_marker
#print axioms Portus.C06.later_uid_not_marker
#print axioms Portus.C06.install_nonmarker_keeps
#print axioms Portus.C06.install_marker_forgets
#print axioms Portus.C06.fresh_history_keeps
#print axioms Portus.C06.installProgram_keeps
#print axioms Portus.Tables.src_regEnc_eq
#print axioms Portus.Tables.src_reg_layout
#print axioms Portus.Tables.src_msgTypes_eq
#print axioms Portus.Tables.src_lengths_eq
#print axioms Portus.Tables.regclasses_shared_with_libccp
#print axioms Portus.Tables.msgtypes_shared_with_libccp
#print axioms Portus.Tables.libccp_model_constants
