import PortusModel.Props.C04
import PortusModel.Props.Tables
#print axioms Portus.C04.from_buf_no_panic
#print axioms Portus.C04.from_buf_progress
#print axioms Portus.C04.create_only_when_create
#print axioms Portus.C04.measure_only_when_measure
#print axioms Portus.C04.ready_only_when_ready
#print axioms Portus.C04.otherwise_unknown
#print axioms Portus.C04.check_fromBuf
#print axioms Portus.Tables.src_msgTypes_eq
#print axioms Portus.Tables.msgtypes_shared_with_libccp
