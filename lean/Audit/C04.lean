import PortusModel.Props.C04
#print axioms Portus.C04.from_buf_no_panic
#print axioms Portus.C04.from_buf_progress
#print axioms Portus.C04.create_only_when_create
#print axioms Portus.C04.measure_only_when_measure
#print axioms Portus.C04.ready_only_when_ready
#print axioms Portus.C04.otherwise_unknown
#print axioms Portus.C04.check_fromBuf
