import PortusModel.Props.C16
import PortusModel.Props.C19
import PortusModel.Props.C09History
#print axioms Portus.C19.recv_never_panics
#print axioms Portus.C16.loopStep_ok
#print axioms Portus.C16.run_no_panic
#print axioms Portus.C16.run_bytes_no_panic
#print axioms Portus.C16.ignored_is_identity
#print axioms Portus.C16.untyped_bytes_are_other
#print axioms Portus.C08.next_no_panic
#print axioms Portus.C04.from_buf_no_panic
#print axioms Portus.Rt.step_ok
#print axioms Portus.C02.history_refines_flat_map
#print axioms Portus.C09.spec_ignored_is_identity
#print axioms Portus.C09.spec_unknown_measure_is_identity
