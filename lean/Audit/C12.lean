import PortusModel.Props.C12
import PortusModel.Props.Vertical
import PortusModel.Props.Tables
#print axioms Portus.C12.get_field_spec
#print axioms Portus.C12.get_field_no_panic
#print axioms Portus.C12.getField_eq
#print axioms Portus.C12.stale_scope
#print axioms Portus.C12.value_is_own_slot
#print axioms Portus.C12.declared_report_variable_reads_its_slot
#print axioms Portus.C12.check_model
#print axioms Portus.Vertical.reported_values_reach_the_decoder
#print axioms Portus.Vertical.flow_reads_value_by_name
#print axioms Portus.Tables.src_getFieldTable_eq
#print axioms Portus.Tables.src_getField_eq
