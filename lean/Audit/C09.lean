import PortusModel.Props.C09
#print axioms Portus.C09.other_datapaths_untouched
#print axioms Portus.C09.commands_go_home
#print axioms Portus.C02.ready_drops_only_that_address
#print axioms Portus.Rt.step_ok
