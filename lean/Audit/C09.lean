import PortusModel.Props.C09
import PortusModel.Props.C09History
#print axioms Portus.C09.other_datapaths_untouched
#print axioms Portus.C09.commands_go_home
#print axioms Portus.C02.ready_drops_only_that_address
#print axioms Portus.Rt.step_ok
#print axioms Portus.C02.history_refines_flat_map
#print axioms Portus.C09.spec_other_addresses_untouched
#print axioms Portus.C09.spec_callbacks_own_flows
#print axioms Portus.C09.spec_ready_discards_only_own
