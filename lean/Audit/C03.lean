import PortusModel.Props.C03
import PortusModel.Props.Tables
#print axioms Portus.C03.bin_wf
#print axioms Portus.C03.bin_blocks
#print axioms Portus.C03.compile_wf
#print axioms Portus.C03.decode_of_serialize
#print axioms Portus.C03.wfRecs_of_wf
#print axioms Portus.C03.check_model
#print axioms Portus.C03.check_model_cas
#print axioms Portus.Tables.src_opcodes_eq
#print axioms Portus.Tables.src_regEnc_eq
#print axioms Portus.Tables.src_reg_layout
#print axioms Portus.Tables.opcodes_shared_with_libccp
#print axioms Portus.Tables.regclasses_shared_with_libccp
#print axioms Portus.Tables.indices_fit_libccp
