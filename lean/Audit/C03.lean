import PortusModel.Props.C03
#print axioms Portus.C03.bin_wf
#print axioms Portus.C03.bin_blocks
#print axioms Portus.C03.compile_wf
#print axioms Portus.C03.decode_of_serialize
#print axioms Portus.C03.wfRecs_of_wf
#print axioms Portus.C03.check_model
#print axioms Portus.C03.check_model_cas
