import PortusModel.Props.C13
import PortusModel.Props.Tables
#print axioms Portus.C13.builtin_abi
#print axioms Portus.C13.builtin_only
#print axioms Portus.C13.abiTable_positions
#print axioms Portus.C13.report_slots
#print axioms Portus.C13.report_slots_bijective
#print axioms Portus.C13.declareAll_ok_iff
#print axioms Portus.C13.overrides
#print axioms Portus.C13.overrides_cases
#print axioms Portus.C13.locals_distinct
#print axioms Portus.C13.compile_keeps_slots
#print axioms Portus.C13.compile_scope_slots
#print axioms Portus.C13.instrs_use_scope
#print axioms Portus.C13.check_model
#print axioms Portus.Tables.src_builtins_eq
#print axioms Portus.Tables.primitives_shared_with_libccp
#print axioms Portus.Tables.implicits_shared_with_libccp
