import PortusModel.Props.C05
import PortusModel.Props.C05History
import PortusModel.Props.C05Loop
#print axioms Portus.C05.loop_tx_eq_hist_tx
#print axioms Portus.C05.loop_history_install_before_use
#print axioms Portus.C05.install_before_use
#print axioms Portus.C05.install_before_use_sf
#print axioms Portus.C05.install_before_use_trace
#print axioms Portus.C05.installedOk_sound
#print axioms Portus.C05.runHistSf_cons
#print axioms Portus.C05.ready_installs_all
#print axioms Portus.C05.first_create_installs_before_handler
#print axioms Portus.C05.no_other_installs
#print axioms Portus.C05.addresses_stay_registered
#print axioms Portus.C05.install_before_use_partial
#print axioms Portus.Rt.runUser_spec
#print axioms Portus.Rt.step_ok
