import PortusModel.Props.C05
#print axioms Portus.C05.ready_installs_all
#print axioms Portus.C05.first_create_installs_before_handler
#print axioms Portus.C05.no_other_installs
#print axioms Portus.C05.addresses_stay_registered
#print axioms Portus.C05.install_before_use_partial
#print axioms Portus.Rt.runUser_spec
#print axioms Portus.Rt.step_ok
