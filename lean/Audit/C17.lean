import PortusModel.Props.C17
#print axioms Portus.C17.step_inv
#print axioms Portus.C17.single_rmw_unique
#print axioms Portus.C17.generated_is_single_rmw
#print axioms Portus.C17.uids_unique
#print axioms Portus.C17.scope_uid_is_allocated
#print axioms Portus.C17.uid_in_install
#print axioms Portus.Lang.compile_uid_indep
