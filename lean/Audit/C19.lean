import PortusModel.Props.C19
import PortusModel.Props.C18Own
#print axioms Portus.C19.fifo_invariant
#print axioms Portus.C19.per_sender_prefix
#print axioms Portus.C19.drained_all_once
#print axioms Portus.C19.empty_recv_is_error
#print axioms Portus.C19.recv_returns_head
#print axioms Portus.C19.fits_recv_whole
#print axioms Portus.C19.dead_handle_is_err
#print axioms Portus.C19.recv_never_panics
#print axioms Portus.C19.sentOf_opsOf_filter
#print axioms Portus.C19.model_accepted
#print axioms Portus.C18.dead_handle_cannot_send
