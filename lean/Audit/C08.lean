import PortusModel.Props.C08
#print axioms Portus.C08.yields_function_of_datagrams
#print axioms Portus.C08.stale_bytes_irrelevant
#print axioms Portus.C08.yields_from_any_state
#print axioms Portus.C08.wellformed_datagrams_yield_messages
#print axioms Portus.C08.next_no_panic
#print axioms Portus.C08.reception_advances
#print axioms Portus.C08.check_model
