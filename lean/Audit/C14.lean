import PortusModel.Props.C14
import PortusModel.Props.Tables
#print axioms Portus.C14.digitsVal_repr
#print axioms Portus.C14.numeral_parses_exactly
#print axioms Portus.C14.numeral_value_lt
#print axioms Portus.C14.numeral_of_value
#print axioms Portus.C14.infinity_parses
#print axioms Portus.C14.imm_encoding
#print axioms Portus.C14.literal_reaches_operand_atom
#print axioms Portus.C14.literal_reaches_operand_combine
#print axioms Portus.C14.literal_reaches_operand_bind
#print axioms Portus.C14.literal_reaches_operand_def_shape
#print axioms Portus.C14.literal_reaches_operand_override_def
#print axioms Portus.C14.no_silent_truncation
#print axioms Portus.C14.literal_read_back
#print axioms Portus.C14.literal_too_big_rejected
#print axioms Portus.C14.check_model_operand
#print axioms Portus.C14.check_model_definition
#print axioms Portus.C14.check_model_override
#print axioms Portus.C14.literal_below_2_31_accepted
#print axioms Portus.C14.literal_unencodable_refused
#print axioms Portus.Tables.src_regEnc_eq
