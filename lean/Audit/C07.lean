import PortusModel.Props.C07
import PortusModel.Props.Tables
#print axioms Portus.C07.encode_is_libccp
#print axioms Portus.C07.libccp_create_decodes
#print axioms Portus.C07.algSpec_of_name
#print axioms Portus.C07.libccp_measure_decodes
#print axioms Portus.C07.libccp_ready_decodes
#print axioms Portus.C07.decode_encode
#print axioms Portus.C07.decode_concat
#print axioms Portus.C07.check_model
#print axioms Portus.Tables.src_msgTypes_eq
#print axioms Portus.Tables.src_lengths_eq
#print axioms Portus.Tables.msgtypes_shared_with_libccp
