import PortusModel.Props.C01
import PortusModel.Props.C03
import PortusModel.Props.C10
import PortusModel.Props.C13
import PortusModel.Props.C14
#print axioms Portus.C03.bin_wf
#print axioms Portus.C13.compile_scope_slots
#print axioms Portus.C13.instrs_use_scope
#print axioms Portus.C14.literal_read_back
#print axioms Portus.C10.compile_and_serialize_no_panic
