import PortusModel.Props.C01
import PortusModel.Props.C03
import PortusModel.Props.C10
import PortusModel.Props.C13
import PortusModel.Props.C14
import PortusModel.Props.C01Sim
import PortusModel.Props.C01Decode
import PortusModel.Props.Tables
#print axioms Portus.C01.run_correct_from_bytes
#print axioms Portus.C01.run_decoded
#print axioms Portus.C01.compiled_install_decodes
#print axioms Portus.C01.install_decodes
#print axioms Portus.C01.exSrc_decodes
#print axioms Portus.C01.cexSrc2_inTheorem
#print axioms Portus.C01.cexSrc2_not_defBeforeUse
#print axioms Portus.C01.nestedSrc_inTheorem
#print axioms Portus.C01.nestedSrc_not_stratified
#print axioms Portus.C01.nestedSrc_run
#print axioms Portus.C01.hazard_discrepancy
#print axioms Portus.C01.compiled_run_correct
#print axioms Portus.C01.check_accepts_compiled
#print axioms Portus.C01.exSrc_inTheorem
#print axioms Portus.Lang.Frag.compile_refines_lower
#print axioms Portus.Lang.Frag.rhoOk_of_compile
#print axioms Portus.Lang.Frag.defsFor_of_compile
#print axioms Portus.Lang.Frag.lowerE_correct
#print axioms Portus.Lang.Frag.lowerStmt_correct
#print axioms Portus.Lang.Frag.lowerEvents_correct
#print axioms Portus.Lang.Frag.invoke_correct
#print axioms Portus.Lang.Frag.lower_run_correct
#print axioms Portus.Lang.Frag.switch_sim
#print axioms Portus.C03.bin_wf
#print axioms Portus.C13.compile_scope_slots
#print axioms Portus.C13.instrs_use_scope
#print axioms Portus.C14.literal_read_back
#print axioms Portus.C10.compile_and_serialize_no_panic
#print axioms Portus.Tables.src_opTable_eq
#print axioms Portus.Tables.src_opcodes_eq
#print axioms Portus.Tables.src_regEnc_eq
#print axioms Portus.Tables.opcodes_shared_with_libccp
#print axioms Portus.Tables.regclasses_shared_with_libccp
#print axioms Portus.Tables.indices_fit_libccp
#print axioms Portus.Tables.primitives_shared_with_libccp
#print axioms Portus.Tables.implicits_shared_with_libccp
#print axioms Portus.Tables.libccp_model_constants
