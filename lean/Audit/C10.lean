import PortusModel.Props.C10
import PortusModel.Props.Tables
#print axioms Portus.C10.new_with_scope_no_panic
#print axioms Portus.C10.compile_no_panic
#print axioms Portus.C10.compile_and_serialize_no_panic
#print axioms Portus.C10.compile_and_serialize_bytes_no_panic
#print axioms Portus.C10.check_model
#print axioms Portus.Lang.compileExpr_spec
#print axioms Portus.Lang.parseSource_NoDef
#print axioms Portus.Lang.declareAll_spec
#print axioms Portus.Tables.src_opcodes_eq
#print axioms Portus.Tables.src_regEnc_eq
#print axioms Portus.Tables.allOps_complete
