import PortusModel.Props.C11
#print axioms Portus.C11.resolveFields_spec
#print axioms Portus.C11.set_program_spec
#print axioms Portus.C11.update_field_spec
#print axioms Portus.C11.set_program_effect
#print axioms Portus.C11.update_field_effect
#print axioms Portus.C11.updatable_reg_encodes
#print axioms Portus.C06.changeprog_read_by_libccp
