import PortusModel.Props.C11
import PortusModel.Props.VerticalDown
import PortusModel.Props.Tables
#print axioms Portus.C11.resolveFields_spec
#print axioms Portus.C11.set_program_spec
#print axioms Portus.C11.update_field_spec
#print axioms Portus.C11.set_program_effect
#print axioms Portus.C11.update_field_effect
#print axioms Portus.C11.updatable_reg_encodes
#print axioms Portus.C06.changeprog_read_by_libccp
#print axioms Portus.Vertical.update_by_name_reaches_register
#print axioms Portus.Tables.src_updFilter_eq
#print axioms Portus.Tables.src_resolveField_eq
