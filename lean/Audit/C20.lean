import PortusModel.Props.C20
#print axioms Portus.C20.comments_do_not_lower
#print axioms Portus.C20.comments_irrelevant
#print axioms Portus.C20.compile_deterministic
#print axioms Portus.C20.image_deterministic
#print axioms Portus.C20.spelling_table
#print axioms Portus.C20.spellings_cover
#print axioms Portus.Lang.compile_uid_indep
