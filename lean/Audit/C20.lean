import PortusModel.Props.C20
import PortusModel.Props.C20Layout
import PortusModel.Lemmas.Accept2
import PortusModel.Props.Tables
#print axioms Portus.Lang.Typing.well_typed_accepted
#print axioms Portus.Lang.Typing.well_typed_accepted_upd
#print axioms Portus.Lang.Typing.well_typed_image
#print axioms Portus.Lang.Typing.wtSrc_accepted
#print axioms Portus.Lang.Typing.richSrc_accepted
#print axioms Portus.Lang.Typing.wellTyped_eq
#print axioms Portus.Lang.Typing.wellTyped_mono
#print axioms Portus.Lang.Typing.compile_value
#print axioms Portus.Lang.Typing.nestedSrc_accepted
#print axioms Portus.Lang.Typing.nestedLocalSrc_accepted
#print axioms Portus.Lang.Typing.hazardSrc_accepted
#print axioms Portus.Lang.Typing.finding_known_target_type
#print axioms Portus.Lang.Typing.compile_valueG
#print axioms Portus.Lang.Typing.compile_flagV
#print axioms Portus.Lang.Typing.guardedValueSrc_accepted
#print axioms Portus.Lang.Typing.condBindSrc_accepted
#print axioms Portus.Lang.Typing.finding_bind_condition
#print axioms Portus.Lang.Typing.finding_placeholder_operand
#print axioms Portus.Lang.Typing.finding_bare_bool_condition
#print axioms Portus.Lang.Typing.finding_guarded_target
#print axioms Portus.C20.layout_same_image
#print axioms Portus.C20.comments_same_program
#print axioms Portus.C20.rendering_parses
#print axioms Portus.Lang.parse_render
#print axioms Portus.Lang.layout_independent
#print axioms Portus.Lang.comments_only_add_none
#print axioms Portus.Lang.rexpr_parses
#print axioms Portus.Lang.revents_parse
#print axioms Portus.Lang.rdefs_parse
#print axioms Portus.Lang.spelling_table
#print axioms Portus.C20.comments_do_not_lower
#print axioms Portus.C20.comments_irrelevant
#print axioms Portus.C20.compile_deterministic
#print axioms Portus.C20.image_deterministic
#print axioms Portus.C20.spelling_table
#print axioms Portus.C20.spellings_cover
#print axioms Portus.Lang.compile_uid_indep
#print axioms Portus.Tables.src_opTable_eq
