import PortusModel.Driver.Wire
import PortusModel.Driver.Orc
import PortusModel.Driver.Bkd
import PortusModel.Driver.Ctl
import PortusModel.Driver.Lang
import PortusModel.Driver.Rt
import PortusModel.Driver.Vm
import PortusModel.Driver.Uid
import PortusModel.Driver.Xpt
import PortusModel.Driver.Wt
/-! `pmodel`: the line-protocol driver around the model's executable definitions. -/
open Portus.Driver

def dispatch (cmd : String) (args : List String) : String :=
  match cmd with
  | "DEC" => dec args
  | "DECS" => decs args
  | "DECPAR" => decpar args
  | "ENC" => ((encDp args).orElse fun _ => encCtl args).getD "BADARG"
  | "RT" => rt args
  | "BKD" => bkd args
  | "BKDR" => bkdr args
  | "BKDC" => bkdc args
  | "BKDN" => bkdc args   -- the same loop over the real netlink transport (datagrams of at most 900 bytes)
  | "RUN" => runCmd args
  | "RUNBIG" => runBig args
  | "RUNPAIR" =>
    -- two runtimes in one process do not share anything: each behaves as it does alone
    (match args.span (· ≠ "||") with
     | (a, _ :: b) => runCmd a ++ " || " ++ runCmd b
     | _ => "BADARG")
  | "VM" => vmCmd args
  | "LOW" => lowCmd args
  | "UID" => uidCmd args
  | "STOP" => stopCmd args
  | "STOPX" => stopxCmd args
  | "XPT" => xptCmd args
  | "WT" => wtCmd args
  | "CMP" => cmp args
  | "CMPX" => cmpx args
  | "CMPPAR" => cmppar args
  | "AST" => ast args
  | "ORC" => (match args with
    | "C04" :: rest => orcC04 rest
    | "C07" :: rest => orcC07 rest
    | "C08" :: rest => orcC08 rest
    | "C06" :: rest => orcC06 rest
    | "C10" :: rest => orcC10 rest
    | "C13" :: rest => orcC13 rest
    | "C14" :: rest => orcC14 rest
    | "C03" :: rest => orcC03 rest
    | "C01" :: rest => orcC01 rest
    | "C20" :: rest => orcC20 rest
    | "C19" :: rest => orcC19 rest
    | "C02" :: rest => orcTrace Portus.Rt.checkC02 rest
    | "C09" :: rest => orcTrace Portus.Rt.checkC09 rest
    | "C16" :: rest => orcTrace Portus.Rt.checkC16 rest
    | "C05" :: rest => orcC05 rest
    | _ => "BADORC")
  | _ => "BADCMD"

partial def loop (h : IO.FS.Stream) (out : IO.FS.Stream) : IO Unit := do
  let line ← h.getLine
  if line.isEmpty then return ()
  let toks := (line.trimAscii.toString.splitOn " ").filter (· ≠ "")
  match toks with
  | cmd :: id :: args => out.putStrLn s!"{id} {dispatch cmd args}"
  | _ => pure ()
  loop h out

def main : IO Unit := do
  let out ← IO.getStdout
  loop (← IO.getStdin) out
  out.flush
