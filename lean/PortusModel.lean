import PortusModel.Base.Out
import PortusModel.Base.Prim
